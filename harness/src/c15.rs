//! C15 — taproot tree bookkeeping: one step of the parser's tree builder and of the Merkle
//! path bit stack from an ARBITRARY state (inductive), on the real code (hook H5).
use miniscript::descriptor::verif_spend_info as bs;
use miniscript::descriptor::verif_taptree::{self as tb, BuilderState};

use crate::{chk, cover, sym};

type Pk = miniscript::bitcoin::PublicKey;

fn any_u128() -> u128 { ((sym::u64_() as u128) << 64) | sym::u64_() as u128 }

/// Reference semantics of the builder: the state is the set of heights h (1..=128) on the
/// current root-to-cursor path at which the left subtree is complete and the cursor is in
/// the right subtree ("complete[h]"), plus the cursor height.  A leaf placed at height c
/// completes a subtree; while the subtree at the cursor height is a right child (complete[c]
/// set) the parent is complete too and the cursor moves up; otherwise complete[c] is set.
fn ref_push_leaf(mut complete: [bool; 129], mut c: usize) -> ([bool; 129], usize) {
    while c > 0 {
        if !complete[c] {
            complete[c] = true;
            break;
        }
        complete[c] = false;
        c -= 1;
    }
    (complete, c)
}

fn decode(s: BuilderState) -> ([bool; 129], usize) {
    let mut c = [false; 129];
    let mut h = 1;
    while h < 128 {
        c[h] = (s.complete_heights >> h) & 1 == 1;
        h += 1;
    }
    c[128] = s.complete_128;
    (c, s.current_height as usize)
}

/// Representation invariant: only heights 1..=current_height may be marked.
fn inv(s: BuilderState) -> bool {
    let h = s.current_height as u32;
    h <= 128
        && (s.complete_heights & 1) == 0
        && (h >= 127 || (s.complete_heights >> (h + 1)) == 0)
        && (!s.complete_128 || h == 128)
}

// @h c15_builder_push_leaf timeout=3000 mem=16 tier=thorough
#[cfg_attr(kani, kani::proof)]
#[cfg_attr(kani, kani::unwind(131))]
pub fn c15_builder_push_leaf() {
    let s = BuilderState { complete_heights: any_u128(), complete_128: sym::bool_(), current_height: sym::u8_() };
    sym::assume(inv(s));
    let leaf = std::sync::Arc::new(miniscript::Miniscript::<Pk, miniscript::Tap>::TRUE);
    let (depth, t) = tb::push_leaf::<Pk>(s, leaf);
    chk!(depth == s.current_height, "a leaf is recorded at the cursor height");
    let (rc, rh) = ref_push_leaf(decode(s).0, decode(s).1);
    let (lc, lh) = decode(t);
    chk!(lh == rh, "cursor height after a leaf differs from the reference tree walk");
    let mut same = true;
    let mut h = 1;
    while h <= 128 {
        if lc[h] != rc[h] {
            same = false;
        }
        h += 1;
    }
    chk!(same, "completed-subtree marks after a leaf differ from the reference tree walk");
    chk!(inv(t), "builder invariant is preserved by push_leaf");
    cover!(s.current_height == 128 && s.complete_128, "second leaf of a pair at depth 128");
    cover!(s.current_height == 128 && !s.complete_128, "first leaf of a pair at depth 128");
    cover!(lh + 3 <= s.current_height as usize, "several levels completed at once");
}

fn get_mark(s: &BuilderState, h: u32) -> bool {
    if h == 128 {
        s.complete_128
    } else {
        (s.complete_heights >> h) & 1 == 1
    }
}
fn set_mark(s: &mut BuilderState, h: u32, v: bool) {
    if h == 128 {
        s.complete_128 = v;
    } else if v {
        s.complete_heights |= 1u128 << h;
    } else {
        s.complete_heights &= !(1u128 << h);
    }
}

/// The same reference walk on the packed state, at most `MAXLEV` levels completed by one leaf
/// (None if more would be completed).
const MAXLEV: u32 = 24;
fn ref_push_leaf_shallow(s: BuilderState) -> Option<BuilderState> {
    let mut t = s;
    let mut c = s.current_height as u32;
    let mut n = 0;
    while n <= MAXLEV {
        if c == 0 {
            t.current_height = 0;
            return Some(t);
        }
        if !get_mark(&t, c) {
            set_mark(&mut t, c, true);
            t.current_height = c as u8;
            return Some(t);
        }
        set_mark(&mut t, c, false);
        c -= 1;
        n += 1;
    }
    None
}

/// Quick-tier version of `c15_builder_push_leaf`: every cursor height 0..=128 and every state, but
/// a leaf that completes at most MAXLEV = 24 levels at once (the full harness needs 38 min; this one, 2 min, covers
/// the depth-128 special case and the bitmap arithmetic at every height).
// @h c15_builder_push_leaf_shallow timeout=1500 mem=8
#[cfg_attr(kani, kani::proof)]
#[cfg_attr(kani, kani::unwind(28))]
pub fn c15_builder_push_leaf_shallow() {
    let s = BuilderState { complete_heights: any_u128(), complete_128: sym::bool_(), current_height: sym::u8_() };
    sym::assume(inv(s));
    let want = ref_push_leaf_shallow(s);
    sym::assume(want.is_some());
    let leaf = std::sync::Arc::new(miniscript::Miniscript::<Pk, miniscript::Tap>::TRUE);
    let (depth, t) = tb::push_leaf::<Pk>(s, leaf);
    chk!(depth == s.current_height, "a leaf is recorded at the cursor height");
    if let Some(w) = want {
        chk!(t.current_height == w.current_height, "cursor height after a leaf differs from the reference tree walk");
        chk!(t.complete_heights == w.complete_heights && t.complete_128 == w.complete_128, "completed-subtree marks after a leaf differ from the reference tree walk");
    }
    chk!(inv(t), "builder invariant is preserved by push_leaf");
    cover!(s.current_height == 128 && s.complete_128, "second leaf of a pair at depth 128");
    cover!(s.current_height == 128 && !s.complete_128, "first leaf of a pair at depth 128");
    cover!(t.current_height + 3 <= s.current_height, "several levels completed at once");
    cover!(t.current_height == 0 && s.current_height > 0, "tree completed");
}

// @h c15_builder_push_inner timeout=900 mem=8
#[cfg_attr(kani, kani::proof)]
pub fn c15_builder_push_inner() {
    let s = BuilderState { complete_heights: any_u128(), complete_128: sym::bool_(), current_height: sym::u8_() };
    sym::assume(inv(s));
    match tb::push_inner_node::<Pk>(s) {
        Ok(t) => {
            chk!(s.current_height < 128, "a branch below depth 128 must be rejected");
            chk!(t.current_height == s.current_height + 1 && t.complete_heights == s.complete_heights && t.complete_128 == s.complete_128, "a branch only moves the cursor one level down");
            chk!(inv(t), "builder invariant is preserved by push_inner_node");
            cover!(t.current_height == 128, "reaches depth 128");
        }
        Err(_) => {
            chk!(s.current_height == 128, "a branch is rejected only at depth 128");
            cover!(true, "rejected");
        }
    }
}

/// BitStack128: pop(push(s, b)) == (b, s) below height 128; pop on empty is None.
// @h c15_bitstack timeout=900 mem=8
#[cfg_attr(kani, kani::proof)]
pub fn c15_bitstack() {
    let h = sym::u8_();
    let inner = any_u128();
    let bit = sym::bool_();
    sym::assume(h < 128);
    // only the low `h` bits are meaningful
    let mask = if h == 0 { 0 } else { u128::MAX >> (128 - h as u32) };
    let (h1, i1) = bs::bitstack_push((h, inner), bit);
    chk!(h1 == h + 1, "push increments the height");
    chk!((i1 & mask) == (inner & mask), "push keeps the bits below");
    let (r, (h2, i2)) = bs::bitstack_pop((h1, i1));
    chk!(r == Some(bit), "pop returns the pushed bit");
    chk!(h2 == h && (i2 & mask) == (inner & mask), "pop restores the stack");
    let (r0, _) = bs::bitstack_pop((0, inner));
    chk!(r0.is_none(), "pop on an empty stack is None");
    cover!(h == 127, "push at height 127");
}
