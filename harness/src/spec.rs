//! Miniscript specification tables (https://bitcoin.sipa.be/miniscript/),
//! transcribed fragment by fragment.  Trusted oracle of C05/C06/C08.
//!
//! A spec type is the set of letters of the specification:
//! base ∈ {B,V,K,W}; correctness z,o,n,d,u; malleability f,e,s,m.
//! Every rule returns `None` when the specification's "type requirements"
//! column rejects the children.

use miniscript::miniscript::types::{Base, Correctness, Dissat, Input, Malleability, Type};

pub const B: u8 = 0;
pub const V: u8 = 1;
pub const K: u8 = 2;
pub const W: u8 = 3;

#[derive(Copy, Clone, PartialEq, Eq, Debug)]
pub struct S {
    pub base: u8,
    pub z: bool,
    pub o: bool,
    pub n: bool,
    pub d: bool,
    pub u: bool,
    pub f: bool,
    pub e: bool,
    pub s: bool,
    pub m: bool,
}

pub const fn base_of(b: Base) -> u8 {
    match b {
        Base::B => B,
        Base::V => V,
        Base::K => K,
        Base::W => W,
    }
}

/// Letters of a library `Type` (the reading documented in `types/mod.rs` Display).
pub fn of_type(t: Type) -> S {
    let (z, o, n) = match t.corr.input {
        Input::Zero => (true, false, false),
        Input::One => (false, true, false),
        Input::Any => (false, false, false),
        Input::OneNonZero => (false, true, true),
        Input::AnyNonZero => (false, false, true),
    };
    S {
        base: base_of(t.corr.base),
        z,
        o,
        n,
        d: t.corr.dissatisfiable,
        u: t.corr.unit,
        f: matches!(t.mall.dissat, Dissat::None),
        e: matches!(t.mall.dissat, Dissat::Unique),
        s: t.mall.signed,
        m: t.mall.non_malleable,
    }
}

impl S {
    /// `self` claims nothing that `spec` does not grant (same base).
    pub fn leq(&self, spec: &S) -> bool {
        self.base == spec.base
            && (!self.z || spec.z)
            && (!self.o || spec.o)
            && (!self.n || spec.n)
            && (!self.d || spec.d)
            && (!self.u || spec.u)
            && (!self.f || spec.f)
            && (!self.e || spec.e)
            && (!self.s || spec.s)
            && (!self.m || spec.m)
    }
    const fn blank(base: u8) -> S {
        S { base, z: false, o: false, n: false, d: false, u: false, f: false, e: false, s: false, m: false }
    }
}

// ---- leaves -------------------------------------------------------------

pub fn zero() -> S { S { z: true, u: true, d: true, s: true, e: true, m: true, ..S::blank(B) } }
pub fn one() -> S { S { z: true, u: true, f: true, m: true, ..S::blank(B) } }
pub fn pk_k() -> S { S { o: true, n: true, d: true, u: true, s: true, e: true, m: true, ..S::blank(K) } }
pub fn pk_h() -> S { S { n: true, d: true, u: true, s: true, e: true, m: true, ..S::blank(K) } }
pub fn time() -> S { S { z: true, f: true, m: true, ..S::blank(B) } }
pub fn hash() -> S { S { o: true, n: true, d: true, u: true, m: true, ..S::blank(B) } }
pub fn multi() -> S { S { n: true, d: true, u: true, s: true, e: true, m: true, ..S::blank(B) } }
pub fn multi_a() -> S { S { d: true, u: true, s: true, e: true, m: true, ..S::blank(B) } }

// ---- wrappers -----------------------------------------------------------

/// a:X — X is B → W; d=dX; u=uX | s=sX f=fX e=eX | m=mX
pub fn alt(x: S) -> Option<S> {
    if x.base != B {
        return None;
    }
    Some(S { d: x.d, u: x.u, s: x.s, f: x.f, e: x.e, m: x.m, ..S::blank(W) })
}
/// s:X — X is Bo → W; d=dX; u=uX | s=sX f=fX e=eX | m=mX
pub fn swap(x: S) -> Option<S> {
    if x.base != B || !x.o {
        return None;
    }
    Some(S { d: x.d, u: x.u, s: x.s, f: x.f, e: x.e, m: x.m, ..S::blank(W) })
}
/// c:X — X is K → B; o=oX; n=nX; d=dX; u | s; f=fX; e=eX | m=mX
pub fn check(x: S) -> Option<S> {
    if x.base != K {
        return None;
    }
    Some(S { o: x.o, n: x.n, d: x.d, u: true, s: true, f: x.f, e: x.e, m: x.m, ..S::blank(B) })
}
/// d:X — X is Vz → B; o; n; d; (u in Tapscript only) | s=sX; e | m=mX
pub fn dupif(x: S, tap: bool) -> Option<S> {
    if x.base != V || !x.z {
        return None;
    }
    Some(S { o: true, n: true, d: true, u: tap, s: x.s, e: true, m: x.m, ..S::blank(B) })
}
/// v:X — X is B → V; z=zX; o=oX; n=nX | s=sX; f | m=mX
pub fn verify(x: S) -> Option<S> {
    if x.base != B {
        return None;
    }
    Some(S { z: x.z, o: x.o, n: x.n, s: x.s, f: true, m: x.m, ..S::blank(V) })
}
/// j:X — X is Bn → B; o=oX; n; d; u=uX | s=sX; e=fX | m=mX
pub fn nonzero(x: S) -> Option<S> {
    if x.base != B || !x.n {
        return None;
    }
    Some(S { o: x.o, n: true, d: true, u: x.u, s: x.s, e: x.f, m: x.m, ..S::blank(B) })
}
/// n:X — X is B → B; z=zX; o=oX; n=nX; d=dX; u | s=sX f=fX e=eX | m=mX
pub fn zeronotequal(x: S) -> Option<S> {
    if x.base != B {
        return None;
    }
    Some(S { z: x.z, o: x.o, n: x.n, d: x.d, u: true, s: x.s, f: x.f, e: x.e, m: x.m, ..S::blank(B) })
}
/// t:X = and_v(X,1)
pub fn true_(x: S) -> Option<S> { and_v(x, one()) }
/// l:X = or_i(0,X)
pub fn likely(x: S) -> Option<S> { or_i(zero(), x) }
/// u:X = or_i(X,0)
pub fn unlikely(x: S) -> Option<S> { or_i(x, zero()) }

// ---- binary / ternary ---------------------------------------------------

/// and_v(X,Y) — X is V; Y is B,K or V → same as Y;
/// z=zXzY; o=zXoY or zYoX; n=nX or zXnY; u=uY | s=sX or sY; f=sX or fY | m=mXmY
pub fn and_v(x: S, y: S) -> Option<S> {
    if x.base != V || y.base == W {
        return None;
    }
    Some(S {
        z: x.z && y.z,
        o: (x.z && y.o) || (y.z && x.o),
        n: x.n || (x.z && y.n),
        u: y.u,
        s: x.s || y.s,
        f: x.s || y.f,
        m: x.m && y.m,
        ..S::blank(y.base)
    })
}
/// and_b(X,Y) — X is B; Y is W → B;
/// z=zXzY; o=zXoY or zYoX; n=nX or zXnY; d=dXdY; u
/// | s=sX or sY; f=fXfY or sXfX or sYfY; e=eXeYsXsY | m=mXmY
pub fn and_b(x: S, y: S) -> Option<S> {
    if x.base != B || y.base != W {
        return None;
    }
    Some(S {
        z: x.z && y.z,
        o: (x.z && y.o) || (y.z && x.o),
        n: x.n || (x.z && y.n),
        d: x.d && y.d,
        u: true,
        s: x.s || y.s,
        f: (x.f && y.f) || (x.s && x.f) || (y.s && y.f),
        e: x.e && y.e && x.s && y.s,
        m: x.m && y.m,
        ..S::blank(B)
    })
}
/// or_b(X,Z) — X is Bd; Z is Wd → B; z=zXzZ; o=zXoZ or zZoX; d; u
/// | s=sXsZ; e | m=mXmZ eXeZ (sX or sZ)
pub fn or_b(x: S, z: S) -> Option<S> {
    if x.base != B || !x.d || z.base != W || !z.d {
        return None;
    }
    Some(S {
        z: x.z && z.z,
        o: (x.z && z.o) || (z.z && x.o),
        d: true,
        u: true,
        s: x.s && z.s,
        e: true,
        m: x.m && z.m && x.e && z.e && (x.s || z.s),
        ..S::blank(B)
    })
}
/// or_c(X,Z) — X is Bdu; Z is V → V; z=zXzZ; o=oXzZ
/// | s=sXsZ; f | m=mXmZ eX (sX or sZ)
pub fn or_c(x: S, z: S) -> Option<S> {
    if x.base != B || !x.d || !x.u || z.base != V {
        return None;
    }
    Some(S {
        z: x.z && z.z,
        o: x.o && z.z,
        s: x.s && z.s,
        f: true,
        m: x.m && z.m && x.e && (x.s || z.s),
        ..S::blank(V)
    })
}
/// or_d(X,Z) — X is Bdu; Z is B → B; z=zXzZ; o=oXzZ; d=dZ; u=uZ
/// | s=sXsZ; f=fZ; e=eZ | m=mXmZ eX (sX or sZ)
pub fn or_d(x: S, z: S) -> Option<S> {
    if x.base != B || !x.d || !x.u || z.base != B {
        return None;
    }
    Some(S {
        z: x.z && z.z,
        o: x.o && z.z,
        d: z.d,
        u: z.u,
        s: x.s && z.s,
        f: z.f,
        e: z.e,
        m: x.m && z.m && x.e && (x.s || z.s),
        ..S::blank(B)
    })
}
/// or_i(X,Z) — both B, K or V → same; o=zXzZ; u=uXuZ; d=dX or dZ
/// | s=sXsZ; f=fXfZ; e=eXfZ or fXeZ | m=mXmZ (sX or sZ)
pub fn or_i(x: S, z: S) -> Option<S> {
    if x.base != z.base || x.base == W {
        return None;
    }
    Some(S {
        o: x.z && z.z,
        u: x.u && z.u,
        d: x.d || z.d,
        s: x.s && z.s,
        f: x.f && z.f,
        e: (x.e && z.f) || (x.f && z.e),
        m: x.m && z.m && (x.s || z.s),
        ..S::blank(x.base)
    })
}
/// andor(X,Y,Z) — X is Bdu; Y and Z both B, K or V → same as Y/Z;
/// z=zXzYzZ; o=zXoYoZ or oXzYzZ; u=uYuZ; d=dZ
/// | s=sZ(sX or sY); f=fZ(sX or fY); e=eZ(sX or fY) | m=mXmYmZ eX (sX or sY or sZ)
pub fn andor(x: S, y: S, z: S) -> Option<S> {
    if x.base != B || !x.d || !x.u || y.base != z.base || y.base == W {
        return None;
    }
    Some(S {
        z: x.z && y.z && z.z,
        o: (x.z && y.o && z.o) || (x.o && y.z && z.z),
        u: y.u && z.u,
        d: z.d,
        s: z.s && (x.s || y.s),
        f: z.f && (x.s || y.f),
        e: z.e && (x.s || y.f),
        m: x.m && y.m && z.m && x.e && (x.s || y.s || z.s),
        ..S::blank(y.base)
    })
}

/// thresh(k,X1..Xn) — 1≤k≤n; X1 is Bdu; others Wdu → B;
/// z=all z; o=all z except one o; d; u
/// | s=at most k-1 subs are non-s; e=all subs are s | m=all subs e,m and at most k non-s
pub fn thresh(k: usize, xs: &[S]) -> Option<S> {
    let n = xs.len();
    if k < 1 || k > n {
        return None;
    }
    let mut all_z = true;
    let mut n_o = 0usize;
    let mut n_other = 0usize;
    let mut non_s = 0usize;
    let mut all_e = true;
    let mut all_m = true;
    let mut i = 0;
    while i < n {
        let x = xs[i];
        if x.base != (if i == 0 { B } else { W }) || !x.d || !x.u {
            return None;
        }
        if !x.z {
            all_z = false;
            if x.o {
                n_o += 1;
            } else {
                n_other += 1;
            }
        }
        if !x.s {
            non_s += 1;
        }
        all_e &= x.e;
        all_m &= x.m;
        i += 1;
    }
    Some(S {
        z: all_z,
        o: n_o == 1 && n_other == 0,
        d: true,
        u: true,
        s: non_s <= k - 1,
        e: non_s == 0,
        m: all_e && all_m && non_s <= k,
        ..S::blank(B)
    })
}

// ---- the type system's own invariants (sanity_checks + K never z) --------

/// Representation invariant of every type a well-typed fragment can have.
/// Proved preserved by every rule in `c05_inv_*`.
pub fn inv(t: Type) -> bool {
    let c: Correctness = t.corr;
    let m: Malleability = t.mall;
    let dn = matches!(m.dissat, Dissat::None);
    (!c.dissatisfiable || !dn)
        && (dn || c.base != Base::V)
        && (m.signed || c.base != Base::K)
        && (m.non_malleable || c.input != Input::Zero)
        && (c.base != Base::K || c.unit)
        && (c.base != Base::V || (!c.unit && !c.dissatisfiable))
        && (c.base != Base::W || (c.input != Input::OneNonZero && c.input != Input::AnyNonZero))
        && (c.base != Base::K || c.input != Input::Zero)
        // strengthening that makes the above inductive (not in the library's own asserts):
        // W fragments are `a:`/`s:` wrappers, whose input is always "any";
        // a dissatisfiable zero-input fragment descends from `0`: unique dissat, signed.
        && (c.base != Base::W || c.input == Input::Any)
        && (!(c.input == Input::Zero && c.dissatisfiable)
            || (matches!(m.dissat, Dissat::Unique) && m.signed))
}
