//! C17 (rule level) — lock-time merging and comparison on the REAL code, all u32 pairs,
//! against the BIP65 / BIP112 comparison written in `vm.rs`.
use miniscript::bitcoin::{absolute, relative, Sequence};
use miniscript::{verif_hooks as hk, AbsLockTime, RelLockTime, Satisfier};

use crate::vm::{bip112, bip65};
use crate::{chk, cover, sym};

type Pk = miniscript::bitcoin::PublicKey;

/// `AbsLockTime::max` (used by `concatenate_rev`): defined exactly for same-unit pairs and the
/// result is met by a transaction exactly when both inputs are.
#[cfg_attr(kani, kani::proof)]
pub fn c17_abs_max() {
    let (a, b) = (sym::u32_(), sym::u32_());
    let (nlt, nseq) = (sym::u32_(), sym::u32_());
    if let (Ok(la), Ok(lb)) = (AbsLockTime::from_consensus(a), AbsLockTime::from_consensus(b)) {
        let r = hk::abs_max(la, lb);
        let same = (a < 500_000_000) == (b < 500_000_000);
        chk!(r.is_some() == same, "AbsLockTime::max must be defined exactly for same-unit locks");
        cover!(r.is_none(), "unit mismatch");
        if let Some(m) = r {
            let mv = m.to_consensus_u32();
            chk!(mv == if a > b { a } else { b }, "AbsLockTime::max must return the later lock");
            chk!(bip65(mv, nlt, nseq) == (bip65(a, nlt, nseq) && bip65(b, nlt, nseq)), "merged absolute lock must be met exactly when both locks are");
            cover!(a != b, "distinct values merged");
            cover!(a == b, "equal values merged");
        }
    }
}

/// `RelLockTime::max`.
#[cfg_attr(kani, kani::proof)]
pub fn c17_rel_max() {
    let (a, b) = (sym::u32_(), sym::u32_());
    let nseq = sym::u32_();
    if let (Ok(la), Ok(lb)) = (RelLockTime::from_consensus(a), RelLockTime::from_consensus(b)) {
        let r = hk::rel_max(la, lb);
        let same = (a & 0x0040_0000) == (b & 0x0040_0000);
        chk!(r.is_some() == same, "RelLockTime::max must be defined exactly for same-unit locks");
        cover!(r.is_none(), "unit mismatch");
        if let Some(m) = r {
            let mv = m.to_consensus_u32();
            chk!(mv == a || mv == b, "RelLockTime::max must return one of its arguments");
            chk!(bip112(mv, nseq) == (bip112(a, nseq) && bip112(b, nseq)), "merged relative lock must be met exactly when both locks are");
            cover!(a == b, "equal values merged");
            cover!((a & 0xffff) != (b & 0xffff), "distinct values merged");
        }
    }
}

/// The comparison the planner and the stock satisfiers use for `after`: BIP65 on the value pair.
#[cfg_attr(kani, kani::proof)]
pub fn c17_after_implied() {
    let (t, nlt) = (sym::u32_(), sym::u32_());
    let lt = absolute::LockTime::from_consensus(t);
    let have = absolute::LockTime::from_consensus(nlt);
    let lib = <absolute::LockTime as Satisfier<Pk>>::check_after(&have, lt);
    chk!(lib == bip65(t, nlt, 0), "check_after of the nLockTime satisfier must be the BIP65 comparison");
    cover!(lib, "met");
    cover!(!lib && t <= nlt, "unit mismatch");
}

/// ... and for `older`: BIP112 on (n, nSequence), through the Sequence / RelLockTime satisfiers.
#[cfg_attr(kani, kani::proof)]
pub fn c17_older_implied() {
    let (t, nseq) = (sym::u32_(), sym::u32_());
    if let Ok(rt) = RelLockTime::from_consensus(t) {
        let n: relative::LockTime = rt.into();
        let lib = <Sequence as Satisfier<Pk>>::check_older(&Sequence::from_consensus(nseq), n);
        chk!(lib == bip112(t, nseq), "check_older of the nSequence satisfier must be the BIP112 comparison");
        cover!(lib, "met");
        cover!(!lib && (t & 0xffff) <= (nseq & 0xffff) && nseq & 0x8000_0000 == 0, "unit mismatch");
        if let Ok(have) = RelLockTime::from_consensus(nseq) {
            let lib2 = <RelLockTime as Satisfier<Pk>>::check_older(&have, n);
            chk!(lib2 == bip112(t, nseq), "check_older of the RelLockTime satisfier must be the BIP112 comparison");
        }
    }
}

/// cmp_by_consensus is the order of the consensus encodings (total, consistent with Eq).
#[cfg_attr(kani, kani::proof)]
pub fn c17_cmp_by_consensus() {
    let (a, b) = (sym::u32_(), sym::u32_());
    if let (Ok(la), Ok(lb)) = (AbsLockTime::from_consensus(a), AbsLockTime::from_consensus(b)) {
        chk!(hk::abs_cmp_by_consensus(la, lb) == a.cmp(&b), "AbsLockTime::cmp_by_consensus");
        chk!((la == lb) == (a == b), "AbsLockTime equality is equality of encodings");
        cover!(a == b, "equal");
    }
    if let (Ok(la), Ok(lb)) = (RelLockTime::from_consensus(a), RelLockTime::from_consensus(b)) {
        chk!(hk::rel_cmp_by_consensus(la, lb) == a.cmp(&b), "RelLockTime::cmp_by_consensus");
        chk!((la == lb) == (a == b), "RelLockTime equality is equality of encodings");
    }
}

/// reference compact-size length
fn compact_size(n: u64) -> usize {
    if n < 0xfd {
        1
    } else if n <= 0xffff {
        3
    } else if n <= 0xffff_ffff {
        5
    } else {
        9
    }
}

/// `ItemSize::size` of the witness placeholders a plan is made of (hook H3b) - what
/// `Plan::witness_size` / `satisfaction_weight` add up: every item is its serialized length plus
/// its compact-size length prefix.  The leaf script has a SYMBOLIC length (0..=70000), so the
/// 253 / 65536 boundaries of the prefix are inside the domain.
// @h c17_placeholder_sizes timeout=900 mem=8
#[cfg_attr(kani, kani::proof)]
#[cfg_attr(kani, kani::unwind(3))]
pub fn c17_placeholder_sizes() {
    use miniscript::bitcoin::ScriptBuf;
    use miniscript::miniscript::satisfy::Placeholder;
    let len = sym::usize_();
    sym::assume(len <= 70_000);
    let script = ScriptBuf::from_bytes(vec![0u8; len]);
    let p: Placeholder<Pk> = Placeholder::TapScript(script);
    let sz = hk::placeholder_size(&p);
    chk!(sz == len + compact_size(len as u64), "witness size of the leaf script item is its length plus the compact-size prefix");
    cover!(len == 253, "3-byte prefix boundary");
    cover!(len == 65_536, "5-byte prefix boundary");
    core::mem::forget(p);
    let one: Placeholder<Pk> = Placeholder::PushOne;
    let zero: Placeholder<Pk> = Placeholder::PushZero;
    let hd: Placeholder<Pk> = Placeholder::HashDissatisfaction;
    chk!(hk::placeholder_size(&one) == 2 && hk::placeholder_size(&zero) == 1 && hk::placeholder_size(&hd) == 33, "sizes of <1>, <> and the 32-byte hash dissatisfaction incl. length prefix");
    // a template: sum of the items plus the compact-size item count
    let n = sym::u8_() as usize;
    sym::assume(n <= 2);
    let t: [Placeholder<Pk>; 2] = [Placeholder::PushOne, Placeholder::HashDissatisfaction];
    let want = (if n >= 1 { 2 } else { 0 }) + (if n >= 2 { 33 } else { 0 }) + 1;
    chk!(hk::template_witness_size(&t[..n]) == want, "witness_size is the sum of the item sizes plus the item count prefix");
    core::mem::forget(t);
}

/// The PSBT input satisfier's lock checks (`PsbtInputSatisfier::check_after / check_older`): for
/// every transaction version, nLockTime and nSequence they are exactly "the transaction meets the
/// lock": BIP65 incl. the non-final sequence, BIP112 incl. transaction version >= 2.
// @h c17_psbt_locks timeout=900 mem=8
#[cfg_attr(kani, kani::proof)]
#[cfg_attr(kani, kani::unwind(3))]
pub fn c17_psbt_locks() {
    use miniscript::bitcoin::transaction::Version;
    use miniscript::bitcoin::{OutPoint, Psbt, ScriptBuf, Transaction, TxIn, Witness};
    use miniscript::psbt::PsbtInputSatisfier;
    use std::collections::BTreeMap;
    let (ver, nlt, nseq) = (sym::i32_(), sym::u32_(), sym::u32_());
    let (t, r) = (sym::u32_(), sym::u32_());
    let tx = Transaction {
        version: Version(ver),
        lock_time: absolute::LockTime::from_consensus(nlt),
        input: vec![TxIn { previous_output: OutPoint::null(), script_sig: ScriptBuf::new(), sequence: Sequence(nseq), witness: Witness::new() }],
        output: vec![],
    };
    let psbt = Psbt { unsigned_tx: tx, version: 0, xpub: BTreeMap::new(), proprietary: BTreeMap::new(), unknown: BTreeMap::new(), inputs: vec![], outputs: vec![] };
    let s = PsbtInputSatisfier::new(&psbt, 0);
    let after = <PsbtInputSatisfier as Satisfier<Pk>>::check_after(&s, absolute::LockTime::from_consensus(t));
    chk!(after == bip65(t, nlt, nseq), "PSBT satisfier: after(t) is available exactly when the transaction meets it (BIP65, non-final input)");
    if let Ok(rt) = RelLockTime::from_consensus(r) {
        let older = <PsbtInputSatisfier as Satisfier<Pk>>::check_older(&s, rt.into());
        chk!(older == (ver >= 2 && bip112(r, nseq)), "PSBT satisfier: older(n) is available exactly when the transaction meets it (BIP112, version >= 2)");
        cover!(older, "older met");
        cover!(!older && bip112(r, nseq), "older refused because of the transaction version");
    }
    cover!(after, "after met");
    cover!(!after && nseq == 0xffff_ffff && t <= nlt, "after refused because the input is final");
    core::mem::forget(psbt);
}
