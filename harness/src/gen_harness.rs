//! Emission of the per-property harness wrappers over the generated shapes (native only).
use std::fmt::Write as _;

use crate::gen::{write_out, GShape};
use crate::spec;

struct Fam {
    prop: &'static str,
    body: &'static str,
    batch: usize,
    kind: &'static str,
    timeout: u32,
    mem: u32,
    /// share (per mille) of the applicable shapes kept in the quick tier (hash-selected, fixed);
    /// the thorough tier takes all of them.  Keeps every quick check well below 15 minutes.
    quick_keep: u64,
}

fn applicable(f: &Fam, g: &GShape) -> bool {
    let b = g.base == spec::B;
    if g.family == 2 {
        return f.body == "c06";
    }
    if g.family == 1 {
        return (matches!(f.body, "c01" | "c02" | "c03" | "c17") && !g.rows.is_empty()) || (f.body == "c13" && g.itab.as_ref().map(|t| !t.cases.is_empty()).unwrap_or(false));
    }
    match f.body {
        "c01" => !g.rows.is_empty(),
        "c02" => b && !g.rows.is_empty(),
        "c03" => b && g.sane && g.rows.iter().any(|r| g.wits[r.w[0]].kind == 0),
        "c04" => g.family == 0,
        "c06" => true,
        "c06_d" => g.ty.d && !g.rows.is_empty(),
        "c07" => b && g.liftable && !g.rows.is_empty(),
        "c09" => !g.rows.is_empty(),
        "c17" => b && g.has_desc && !g.rows.is_empty(),
        "c13" => b && g.itab.as_ref().map(|t| !t.cases.is_empty()).unwrap_or(false),
        _ => false,
    }
}

pub fn emit_wrappers(all: &[GShape], out_dir: &str, tier: &str) {
    let fams = [
        Fam { prop: "c01", body: "c01", batch: 8, kind: "W", timeout: 1500, mem: 4, quick_keep: 1000 },
        Fam { prop: "c02", body: "c02", batch: 4, kind: "W", timeout: 1800, mem: 4, quick_keep: 380 },
        Fam { prop: "c03", body: "c03", batch: 4, kind: "W", timeout: 1800, mem: 4, quick_keep: 450 },
        Fam { prop: "c04", body: "c04", batch: 40, kind: "V", timeout: 900, mem: 4, quick_keep: 1000 },
        Fam { prop: "c06", body: "c06", batch: 4, kind: "V", timeout: 1800, mem: 4, quick_keep: 1000 },
        Fam { prop: "c06", body: "c06_d", batch: 10, kind: "W", timeout: 1500, mem: 4, quick_keep: 1000 },
        Fam { prop: "c07", body: "c07", batch: 4, kind: "V", timeout: 1800, mem: 4, quick_keep: 380 },
        Fam { prop: "c09", body: "c09", batch: 8, kind: "W", timeout: 1500, mem: 4, quick_keep: 1000 },
        Fam { prop: "c17", body: "c17", batch: 8, kind: "W", timeout: 1500, mem: 4, quick_keep: 1000 },
        Fam { prop: "c13", body: "c13", batch: 6, kind: "W", timeout: 1500, mem: 4, quick_keep: 110 },
    ];
    let mut src = String::from("// generated - do not edit\n#![allow(clippy::all)]\nuse super::shapes::*;\n");
    for f in &fams {
        // stratification: the first few shapes of every (context, root fragment) are always kept
        let mut strat: std::collections::HashSet<usize> = std::collections::HashSet::new();
        {
            let mut seen: std::collections::HashMap<(u8, String), usize> = std::collections::HashMap::new();
            for (i, g) in all.iter().enumerate() {
                if applicable(f, g) {
                    let c = seen.entry((g.ctx, g.t.root().to_string())).or_insert(0);
                    if *c < 4 {
                        strat.insert(i);
                    }
                    *c += 1;
                }
            }
        }
        let keep_i = |i: usize| strat.contains(&i);
        let keep = |g: &GShape| {
            tier == "thorough"
                || f.quick_keep >= 1000
                || crate::gen::hash_str(&format!("{}{}", g.name, g.ctx), 11) % 1000 < f.quick_keep
                // the lock-value dimension is the symbolic one for C13: half of the shapes with lock atoms
                || (f.body == "c13" && !(g.abs.is_empty() && g.rel.is_empty()) && crate::gen::hash_str(&format!("{}{}", g.name, g.ctx), 12) % 1000 < 500)
        };
        let idx: Vec<usize> = (0..all.len()).filter(|&i| applicable(f, &all[i]) && (keep(&all[i]) || (f.quick_keep < 1000 && keep_i(i)))).collect();
        for (bi, chunk) in idx.chunks(f.batch).enumerate() {
            let name = format!("{}_{}_{:03}", f.prop, if f.body == "c06_d" { "d" } else { "w" }, bi);
            let mut unwind = 12usize;
            for &i in chunk {
                let g = &all[i];
                let rows = 0;
                for v in [g.ops.len(), g.wits.len(), g.lockvecs.len(), g.policy.len(), rows] {
                    unwind = unwind.max(v);
                }
                if f.body == "c13" {
                    if let Some(t) = &g.itab {
                        unwind = unwind.max(t.cases.len());
                    }
                }
            }
            let _ = writeln!(src, "// @h {name} kind={} programs={} timeout={} mem={} covers=any", f.kind, chunk.len(), f.timeout, f.mem);
            let _ = writeln!(src, "#[cfg_attr(kani, kani::proof)]\n#[cfg_attr(kani, kani::unwind({}))]\npub fn {name}() {{", unwind + 2);
            for &i in chunk {
                if f.body == "c13" {
                    let _ = writeln!(src, "    crate::w::c13(&super::c13::IC{i}); // {}", all[i].name);
                } else {
                    let _ = writeln!(src, "    crate::w::{}(&SH{i}); // {}", f.body, all[i].name);
                }
            }
            let _ = writeln!(src, "}}");
        }
    }
    write_out(out_dir, "wrappers.rs", &src);
    let mut m = String::from("// generated - do not edit\npub mod shapes;\npub mod wrappers;\n");
    for extra in ["c08", "c12", "c13", "c18"] {
        if std::path::Path::new(&format!("{out_dir}/{extra}.rs")).exists() {
            let _ = writeln!(m, "pub mod {extra};");
        }
    }
    write_out(out_dir, "mod.rs", &m);
}
