//! C10 — descriptor checksum: the real engine against the BIP-380 reference algorithm written
//! here from the BIP text, and `verify_checksum` accepting exactly what the engine prints.
use miniscript::descriptor::checksum::{verify_checksum, Engine};

use crate::{chk, cover, sym};

const INPUT_CHARSET: &[u8; 95] = b"0123456789()[],'/*abcdefgh@:$%{}IJKLMNOPQRSTUVWXYZ&+-.;<=>?!^_|~ijklmnopqrstuvwxyzABCDEFGH`#\"\\ ";
const CHECKSUM_CHARSET: &[u8; 32] = b"qpzry9x8gf2tvdw0s3jn54khce6mua7l";
const GENERATOR: [u64; 5] = [0xf5dee51989, 0xa9fdca3312, 0x1bab10e32d, 0x3706b1677a, 0x644d626ffd];

fn polymod_step(chk: u64, value: u64) -> u64 {
    let top = chk >> 35;
    let mut c = ((chk & 0x7_ffff_ffff) << 5) ^ value;
    let mut i = 0;
    while i < 5 {
        if (top >> i) & 1 == 1 {
            c ^= GENERATOR[i];
        }
        i += 1;
    }
    c
}

/// position of a character in INPUT_CHARSET (255 = not in the set), as a constant table so that
/// a symbolic character costs one array read instead of a 95-step scan
const fn inverse_charset() -> [u8; 128] {
    let mut t = [255u8; 128];
    let mut i = 0;
    while i < 95 {
        t[INPUT_CHARSET[i] as usize] = i as u8;
        i += 1;
    }
    t
}
const INV: [u8; 128] = inverse_charset();
fn charset_pos(c: u8) -> u64 {
    if c < 128 {
        INV[c as usize] as u64
    } else {
        255
    }
}

/// BIP-380 descsum_create, checksum part
fn reference<const N: usize>(s: &[u8; N], n: usize) -> [u8; 8] {
    let mut chk = 1u64;
    let mut groups = [0u64; 3];
    let mut ng = 0;
    let mut i = 0;
    while i < N {
        if i < n {
            let v = charset_pos(s[i]);
            chk = polymod_step(chk, v & 31);
            groups[ng] = v >> 5;
            ng += 1;
            if ng == 3 {
                chk = polymod_step(chk, groups[0] * 9 + groups[1] * 3 + groups[2]);
                ng = 0;
            }
        }
        i += 1;
    }
    if ng == 1 {
        chk = polymod_step(chk, groups[0]);
    } else if ng == 2 {
        chk = polymod_step(chk, groups[0] * 3 + groups[1]);
    }
    let mut j = 0;
    while j < 8 {
        chk = polymod_step(chk, 0);
        j += 1;
    }
    chk ^= 1;
    let mut out = [0u8; 8];
    let mut j = 0;
    while j < 8 {
        out[j] = CHECKSUM_CHARSET[((chk >> (5 * (7 - j))) & 31) as usize];
        j += 1;
    }
    out
}

fn any_string<const N: usize>() -> ([u8; N], usize) {
    let mut b = [b'0'; N];
    let n = sym::u8_() as usize;
    sym::assume(n <= N);
    let mut i = 0;
    while i < N {
        let c = sym::u8_();
        sym::assume(c >= 32 && c < 127);
        b[i] = c;
        i += 1;
    }
    (b, n)
}

fn differential<const N: usize>() {
    let (b, n) = any_string::<N>();
    let s = unsafe { core::str::from_utf8_unchecked(&b[..n]) };
    let mut e = Engine::new();
    let r = e.input(s);
    chk!(r.is_ok(), "engine rejects a printable ASCII string");
    let got = e.checksum_chars();
    let want = reference::<N>(&b, n);
    let mut same = true;
    let mut j = 0;
    while j < 8 {
        if got[j] as u32 != want[j] as u32 {
            same = false;
        }
        j += 1;
    }
    chk!(same, "checksum differs from the BIP-380 algorithm");
    cover!(n == N, "full length");
    core::mem::forget(r);
}

// @h c10_checksum_diff_2 timeout=1500 mem=8
#[cfg_attr(kani, kani::proof)]
#[cfg_attr(kani, kani::unwind(13))]
pub fn c10_checksum_diff_2() { differential::<2>() }

// @h c10_checksum_diff_3 timeout=3000 mem=10
#[cfg_attr(kani, kani::proof)]
#[cfg_attr(kani, kani::unwind(13))]
pub fn c10_checksum_diff_3() { differential::<3>() }

// @h c10_checksum_diff_5 timeout=6000 mem=12 tier=thorough
#[cfg_attr(kani, kani::proof)]
#[cfg_attr(kani, kani::unwind(13))]
pub fn c10_checksum_diff_5() { differential::<5>() }

/// verify_checksum accepts s#checksum(s), returns s, and rejects any other 8 characters.
// @h c10_verify_roundtrip timeout=3000 mem=10
#[cfg_attr(kani, kani::proof)]
#[cfg_attr(kani, kani::unwind(34))]
pub fn c10_verify_roundtrip() {
    let (b, n) = any_string::<2>();
    let mut i = 0;
    while i < 2 {
        sym::assume(b[i] != b'#');
        i += 1;
    }
    let want = reference::<2>(&b, n);
    // candidate checksum: symbolic, over the checksum alphabet
    let mut buf = [b'q'; 11];
    let mut k = 0;
    while k < 2 {
        if k < n {
            buf[k] = b[k];
        }
        k += 1;
    }
    buf[n] = b'#';
    let mut equal = true;
    let mut j = 0;
    while j < 8 {
        let idx = sym::u8_();
        sym::assume(idx < 32);
        let c = CHECKSUM_CHARSET[idx as usize];
        buf[n + 1 + j] = c;
        if c != want[j] {
            equal = false;
        }
        j += 1;
    }
    let s = unsafe { core::str::from_utf8_unchecked(&buf[..n + 9]) };
    let r = verify_checksum(s);
    chk!(r.is_ok() == equal, "verify_checksum must accept exactly the checksum the algorithm prescribes");
    if let Ok(body) = r {
        chk!(body.len() == n, "verify_checksum returns the part before '#'");
        cover!(true, "accepted");
    } else {
        cover!(true, "rejected");
    }
    core::mem::forget(r);
}
