//! C11 — no input crashes the library: Kani's default checks (panic, arithmetic overflow,
//! bounds, unwinding) on entry points fed with symbolic untrusted input of stated sizes.
use miniscript::bitcoin::bip32::{ChainCode, ChildNumber, DerivationPath, Fingerprint, Xpub};
use miniscript::bitcoin::secp256k1;
use miniscript::bitcoin::NetworkKind;
use miniscript::descriptor::{DescriptorXKey, Wildcard};
use miniscript::{DefiniteDescriptorKey, DescriptorPublicKey};

use crate::{chk, cover, sym};

fn path_of(n: usize, vals: [u8; 2]) -> DerivationPath {
    let mut v: Vec<ChildNumber> = Vec::new();
    if n >= 1 {
        v.push(ChildNumber::Normal { index: vals[0] as u32 });
    }
    if n >= 2 {
        v.push(ChildNumber::Normal { index: vals[1] as u32 });
    }
    DerivationPath::from(v)
}

/// An xpub-based definite key whose curve point is never used (only its paths matter).
fn xkey(origin: Option<(Fingerprint, DerivationPath)>, path: DerivationPath) -> DefiniteDescriptorKey {
    let raw = unsafe { secp256k1::ffi::PublicKey::from_array_unchecked([7u8; 64]) };
    let pk = secp256k1::PublicKey::from(raw);
    let xpub = Xpub { network: NetworkKind::Main, depth: 0, parent_fingerprint: Fingerprint::from([0u8; 4]), child_number: ChildNumber::Normal { index: 0 }, public_key: pk, chain_code: ChainCode::from([1u8; 32]) };
    let k = DescriptorPublicKey::XPub(DescriptorXKey { origin, xkey: xpub, derivation_path: path, wildcard: Wildcard::None });
    DefiniteDescriptorKey::new(k).expect("no wildcard")
}

/// A single (non-extended) key with a key origin: its full derivation path is the origin path.
fn single_key(path: DerivationPath) -> DefiniteDescriptorKey {
    use miniscript::descriptor::{SinglePub, SinglePubKey};
    let raw = unsafe { secp256k1::ffi::PublicKey::from_array_unchecked([7u8; 64]) };
    let pk = miniscript::bitcoin::PublicKey::new(secp256k1::PublicKey::from(raw));
    let k = DescriptorPublicKey::Single(SinglePub { origin: Some((Fingerprint::from([0u8; 4]), path)), key: SinglePubKey::FullKey(pk) });
    DefiniteDescriptorKey::new(k).expect("definite")
}

fn direct_child_case(nk: usize, na: usize) {
    let kv = [sym::u8_(), sym::u8_()];
    let av = [sym::u8_(), sym::u8_()];
    let key = single_key(path_of(nk, kv));
    let asset_path = path_of(na, av);
    let r = miniscript::plan::verif_is_key_direct_child_of(&key, &asset_path);
    let prefix = (na < 1 || kv[0] == av[0]) && (na < 2 || kv[1] == av[1]);
    let same = nk == na && prefix;
    let parent = nk == na + 1 && prefix;
    chk!(r == (same || parent), "direct-child test must mean: same path, or the asset path extended by exactly one step");
    cover!(true, "case evaluated");
    core::mem::forget(key);
    core::mem::forget(asset_path);
}

/// Planner key lookup: `Assets` with an arbitrary key source against a descriptor key with an
/// arbitrary (possibly empty) derivation path - never panics, and means "same path or one
/// step more".  Path lengths 0..=2 each (enumerated), child numbers symbolic.
// @h c11_plan_direct_child_* timeout=1500 mem=8
macro_rules! dc {
    ($name:ident, $nk:expr, $na:expr) => {
        #[cfg_attr(kani, kani::proof)]
        #[cfg_attr(kani, kani::unwind(5))]
        pub fn $name() { direct_child_case($nk, $na) }
    };
}
dc!(c11_plan_direct_child_00, 0, 0);
dc!(c11_plan_direct_child_01, 0, 1);
dc!(c11_plan_direct_child_02, 0, 2);
dc!(c11_plan_direct_child_10, 1, 0);
dc!(c11_plan_direct_child_11, 1, 1);
dc!(c11_plan_direct_child_12, 1, 2);
dc!(c11_plan_direct_child_20, 2, 0);
dc!(c11_plan_direct_child_21, 2, 1);
dc!(c11_plan_direct_child_22, 2, 2);

fn ascii<const N: usize>(alphabet: &[u8]) -> ([u8; N], usize) {
    let mut b = [b'0'; N];
    let n = sym::u8_() as usize;
    sym::assume(n <= N);
    let mut i = 0;
    while i < N {
        let c = sym::u8_();
        let mut ok = false;
        let mut j = 0;
        while j < alphabet.len() {
            if c == alphabet[j] {
                ok = true;
            }
            j += 1;
        }
        sym::assume(ok);
        b[i] = c;
        i += 1;
    }
    (b, n)
}

/// number parser on every string of <= 3 characters over digits and two non-digits
// @h c11_parse_num timeout=1500 mem=8
#[cfg_attr(kani, kani::proof)]
#[cfg_attr(kani, kani::unwind(14))]
pub fn c11_parse_num() {
    let (b, n) = ascii::<3>(b"0123456789+a");
    let s = unsafe { core::str::from_utf8_unchecked(&b[..n]) };
    let r = miniscript::expression::parse_num(s);
    if let Ok(v) = r {
        cover!(v > 99, "three-digit number");
        // canonical: no leading zero, digits only, value matches
        chk!(n >= 1 && (b[0] != b'0' || n == 1), "parse_num accepts a leading zero");
        let mut val = 0u32;
        let mut i = 0;
        while i < 3 {
            if i < n {
                chk!(b[i] >= b'0' && b[i] <= b'9', "parse_num accepts a non-digit");
                val = val * 10 + (b[i] - b'0') as u32;
            }
            i += 1;
        }
        chk!(v == val, "parse_num returns the wrong value");
    } else {
        cover!(true, "rejected");
    }
    core::mem::forget(r);
}

