//! Symbolic-input shim: `kani::any()` under Kani, model bytes natively.

#[cfg(not(kani))]
mod native {
    use std::cell::RefCell;
    use std::collections::VecDeque;
    thread_local! {
        pub static VALS: RefCell<VecDeque<Vec<u8>>> = RefCell::new(VecDeque::new());
        pub static FAILS: RefCell<Vec<String>> = RefCell::new(Vec::new());
        pub static ASSUME_FAILED: RefCell<Option<String>> = RefCell::new(None);
        pub static COVERS: RefCell<Vec<String>> = RefCell::new(Vec::new());
        /// the solver's trace ends at the failing assertion: once its values are used up,
        /// the rest of the harness is not part of the model and is ignored
        pub static EXHAUSTED: RefCell<bool> = RefCell::new(false);
    }
    pub fn pop(n: usize) -> Vec<u8> {
        VALS.with(|v| match v.borrow_mut().pop_front() {
            Some(x) => {
                assert_eq!(x.len(), n, "replay-infrastructure: model value has wrong width");
                x
            }
            None => {
                EXHAUSTED.with(|e| *e.borrow_mut() = true);
                vec![0; n]
            }
        })
    }
}

#[cfg(not(kani))]
pub fn load(vals: Vec<Vec<u8>>) {
    native::VALS.with(|v| *v.borrow_mut() = vals.into());
    native::FAILS.with(|v| v.borrow_mut().clear());
    native::COVERS.with(|v| v.borrow_mut().clear());
    native::ASSUME_FAILED.with(|v| *v.borrow_mut() = None);
    native::EXHAUSTED.with(|v| *v.borrow_mut() = false);
}
#[cfg(not(kani))]
pub fn exhausted() -> bool { native::EXHAUSTED.with(|v| *v.borrow()) }
#[cfg(not(kani))]
pub fn failures() -> Vec<String> { native::FAILS.with(|v| v.borrow().clone()) }
#[cfg(not(kani))]
pub fn covers_hit() -> Vec<String> { native::COVERS.with(|v| v.borrow().clone()) }
#[cfg(not(kani))]
pub fn assume_failed() -> Option<String> { native::ASSUME_FAILED.with(|v| v.borrow().clone()) }

macro_rules! prim {
    ($name:ident, $t:ty, $n:expr) => {
        #[inline(always)]
        pub fn $name() -> $t {
            #[cfg(kani)]
            {
                kani::any()
            }
            #[cfg(not(kani))]
            {
                let b = native::pop($n);
                let mut a = [0u8; $n];
                a.copy_from_slice(&b);
                <$t>::from_le_bytes(a)
            }
        }
    };
}
prim!(u8_, u8, 1);
prim!(u16_, u16, 2);
prim!(u32_, u32, 4);
prim!(u64_, u64, 8);
prim!(usize_, usize, 8);
prim!(i64_, i64, 8);
prim!(i32_, i32, 4);

#[inline(always)]
pub fn bool_() -> bool {
    #[cfg(kani)]
    {
        kani::any()
    }
    #[cfg(not(kani))]
    {
        native::pop(1)[0] != 0
    }
}

/// symbolic value in `0..n`
#[inline(always)]
pub fn below(n: u8) -> u8 {
    let x = u8_();
    assume(x < n);
    x
}

#[inline(always)]
pub fn assume(c: bool) {
    #[cfg(kani)]
    kani::assume(c);
    #[cfg(not(kani))]
    if !c && !exhausted() {
        native::ASSUME_FAILED.with(|v| {
            let mut v = v.borrow_mut();
            if v.is_none() {
                *v = Some("assumption violated by model".to_string());
            }
        });
    }
}

/// The property assertion: `chk!(cond, "message")`.
#[macro_export]
macro_rules! chk {
    ($c:expr, $msg:literal $(,)?) => {{
        #[cfg(kani)]
        kani::assert($c, $msg);
        #[cfg(not(kani))]
        if !($c) {
            $crate::sym::note_fail($msg);
        }
    }};
}
#[cfg(not(kani))]
pub fn note_fail(m: &str) {
    if assume_failed().is_none() && !exhausted() {
        eprintln!("    ^ FAILS: {}", m);
        native::FAILS.with(|v| v.borrow_mut().push(m.to_string()));
    }
}

/// Reachability witness (vacuity guard). Must come back SATISFIED.
#[macro_export]
macro_rules! cover {
    ($c:expr, $msg:literal $(,)?) => {{
        #[cfg(kani)]
        kani::cover!($c, $msg);
        #[cfg(not(kani))]
        if $c {
            $crate::sym::note_cover($msg);
        }
    }};
}
#[cfg(not(kani))]
pub fn note_cover(m: &str) { native::COVERS.with(|v| v.borrow_mut().push(m.to_string())); }
