//! Bodies of the artefact-level (V) and witness-table (W) harnesses.  Each takes one
//! generated `Shape` (constants produced natively by the real library) and decides a
//! for-all statement about it with the reference machine of `vm.rs`.

use crate::shape::*;
use crate::spec;
use crate::vm::{self, tag, El, Machine};
use crate::{chk, cover, sym};

#[cfg(not(kani))]
fn note_shape(sh: &Shape) { eprintln!("  shape {}", sh.name); }
#[cfg(kani)]
fn note_shape(_: &Shape) {}

fn any_locks() -> (u32, u32) { (sym::u32_(), sym::u32_()) }

/// nLockTime / nSequence meet the locks a template reports (reading fixed in DESIGN §5 C01).
fn meets(abs: u32, rel: u32, nlt: u32, nseq: u32) -> bool { (abs == 0 || vm::bip65(abs, nlt, nseq)) && (rel == 0 || vm::bip112(rel, nseq)) }

fn run_wit(sh: &Shape, w: &Wit, extra_top: Option<El>, nlt: u32, nseq: u32) -> Machine {
    let env = vm::Env { ctx: sh.ctx, hashkind: sh.hashkind, n_lock_time: nlt, n_sequence: nseq };
    let mut m = Machine::new();
    let mut i = 0;
    while i < w.n as usize {
        m.st[i] = w.els[i];
        i += 1;
    }
    m.sp = w.n as usize;
    if let Some(x) = extra_top {
        m.st[m.sp] = x;
        m.sp += 1;
    }
    m.run(sh.ops, &env);
    m
}

fn has_valid_sig(w: &Wit) -> bool {
    let mut r = false;
    let mut i = 0;
    while i < w.n as usize {
        if w.els[i].t == tag::SIG && w.els[i].n == 1 {
            r = true;
        }
        i += 1;
    }
    r
}

const SENT: El = vm::el(tag::JUNK, 99, 7);

// ------------------------------------------------------------------------------------------
// C01: every (dis)satisfaction the library returns does what it says, for every lock value
// meeting the locks it reports.

pub fn c01(sh: &Shape) {
    note_shape(sh);
    let mut i = 0;
    while i < sh.wits.len() {
        let w = &sh.wits[i];
        if w.kind == W_STACK && w.roles != 0 {
            let (nlt, nseq) = any_locks();
            sym::assume(meets(w.abs, w.rel, nlt, nseq));
            cover!(true, "a template of the library was executed");
            let is_sat = w.roles & 0b110011 != 0;
            let is_dis = w.roles & 0b001100 != 0;
            if is_sat {
                match sh.ty.base {
                    spec::B => {
                        let m = run_wit(sh, w, None, nlt, nseq);
                        chk!(!m.overflow, "machine capacity exceeded (inconclusive)");
                        chk!(m.accepted(), "a satisfaction returned by the library is rejected by the script");
                        cover!(m.accepted(), "satisfaction executed");
                    }
                    spec::V => {
                        let m = run_wit(sh, w, None, nlt, nseq);
                        chk!(m.ok && m.sp == 0, "V satisfaction must run through and leave nothing");
                    }
                    spec::K => {
                        let m = run_wit(sh, w, None, nlt, nseq);
                        chk!(m.ok && m.sp == 2 && m.st[1].t == tag::KEY && m.st[0].t == tag::SIG && m.st[0].n == 1 && m.st[0].a == m.st[1].a, "K satisfaction must leave <sig> <key> of the same key");
                    }
                    _ => {
                        let m = run_wit(sh, w, Some(SENT), nlt, nseq);
                        let shape_ok = m.ok && m.sp == 2 && ((m.st[1] == SENT && vm::truthy(m.st[0])) || (m.st[0] == SENT && vm::truthy(m.st[1])));
                        chk!(shape_ok, "W satisfaction must leave [true X] or [X true]");
                    }
                }
                // has_sig bookkeeping of satisfier templates (plans carry no flag)
                // (in malleable mode the flag means "every alternative was signed", so only bit 0)
                if w.roles & 0b000001 != 0 && w.roles & 0b001110 == 0 {
                    chk!(w.has_sig == has_valid_sig(w), "has_sig flag differs from the template's content");
                }
            }
            if is_dis && !is_sat {
                match sh.ty.base {
                    spec::B => {
                        let m = run_wit(sh, w, None, nlt, nseq);
                        chk!(m.ok && m.sp == 1 && m.st[0].t == tag::EMPTY, "a dissatisfaction returned by the library does not leave exactly 0");
                        cover!(m.ok, "dissatisfaction executed");
                    }
                    spec::K => {
                        let m = run_wit(sh, w, None, nlt, nseq);
                        chk!(m.ok && m.sp == 2 && m.st[1].t == tag::KEY && m.st[0].t == tag::EMPTY, "K dissatisfaction must leave <empty> <key>");
                    }
                    spec::W => {
                        let m = run_wit(sh, w, Some(SENT), nlt, nseq);
                        let shape_ok = m.ok && m.sp == 2 && ((m.st[1] == SENT && m.st[0].t == tag::EMPTY) || (m.st[0] == SENT && m.st[1].t == tag::EMPTY));
                        chk!(shape_ok, "W dissatisfaction must leave [0 X] or [X 0]");
                    }
                    _ => {
                        chk!(false, "V fragments have no dissatisfaction");
                    }
                }
            }
        }
        i += 1;
    }
}

// ------------------------------------------------------------------------------------------
// symbolic worlds and witnesses built from a world's assets

fn any_world(sh: &Shape) -> World {
    let sigs = sym::u8_();
    let pres = sym::u8_();
    sym::assume(sigs < (1u8 << sh.nkeys) && pres < (1u8 << sh.nhash));
    let (n_lock_time, n_sequence) = any_locks();
    World { sigs, pres, n_lock_time, n_sequence }
}

/// candidate witness of symbolic length <= `maxlen` over the alphabet, restricted by `allowed`
fn any_witness(sh: &Shape, maxlen: usize, allowed: &dyn Fn(El) -> bool) -> ([El; MAXW], usize) {
    let mut w = [vm::EMPTY; MAXW];
    let n = sym::u8_() as usize;
    sym::assume(n <= maxlen && n <= MAXW);
    let mut i = 0;
    while i < MAXW {
        if i < maxlen {
            let e = any_el(sh);
            sym::assume(allowed(e));
            w[i] = e;
        }
        i += 1;
    }
    (w, n)
}

fn run_arr(sh: &Shape, w: &[El; MAXW], n: usize, wd: &World) -> Machine {
    let env = sh.env(wd);
    let mut m = Machine::new();
    let mut i = 0;
    while i < MAXW {
        if i < n {
            m.st[i] = w[i];
        }
        i += 1;
    }
    m.sp = n;
    m.run(sh.ops, &env);
    m
}

fn max_args(sh: &Shape) -> usize {
    let a = if sh.fig.sat_stack_count == u32::MAX { 0 } else { sh.fig.sat_stack_count as usize };
    let b = if sh.fig.dis_stack_count == u32::MAX { 0 } else { sh.fig.dis_stack_count as usize };
    let m = if a > b { a } else { b };
    if m + 1 > MAXW {
        MAXW
    } else {
        m + 1
    }
}

// ------------------------------------------------------------------------------------------
// C02: some witness from the caller's assets is accepted  =>  the satisfier finds one.

pub fn c02(sh: &Shape) {
    note_shape(sh);
    if sh.ty.base != spec::B {
        return;
    }
    let wd = any_world(sh);
    let (w, n) = any_witness(sh, max_args(sh), &|e: El| match e.t {
        tag::SIG => (e.a < sh.nkeys) && (e.n == 0 || (wd.sigs >> e.a) & 1 == 1),
        tag::PRE => (e.a < sh.nhash) && (wd.pres >> e.a) & 1 == 1,
        _ => true,
    });
    let m = run_arr(sh, &w, n, &wd);
    let row = sh.row_of(&wd);
    chk!(row.is_some(), "generator: lock vector missing from the table");
    if let Some(r) = row {
        let acc = m.accepted();
        cover!(acc || !sh.satisfiable, "some candidate witness is accepted");
        cover!(acc && sh.rows[r].sat_m_k == W_STACK, "accepted world where the satisfier succeeds");
        if acc {
            chk!(sh.rows[r].sat_m_k == W_STACK, "a spend from the caller's assets exists but the malleable satisfier finds none");
            if sh.sane && wd.pres == (1u8 << sh.nhash) - 1 {
                chk!(sh.rows[r].sat_k == W_STACK, "a spend exists (all preimages known, sane script) but the non-malleable satisfier finds none");
            }
        }
    }
}

// ------------------------------------------------------------------------------------------
// C03: a non-malleable satisfaction is the only witness a third party can get accepted.

pub fn c03(sh: &Shape) {
    note_shape(sh);
    if sh.ty.base != spec::B || !sh.sane {
        return;
    }
    let wd = any_world(sh);
    let row = sh.row_of(&wd);
    chk!(row.is_some(), "generator: lock vector missing from the table");
    if let Some(r) = row {
        let rw = &sh.rows[r];
        if rw.sat_k == W_STACK {
            let v = &sh.wits[rw.sat as usize];
            let vn = v.n as usize;
            // adversary: anything, but valid signatures only if visible in the original witness
            let mut visible = 0u8;
            let mut i = 0;
            while i < MAXW {
                if i < vn && v.els[i].t == tag::SIG && v.els[i].n == 1 {
                    visible |= 1 << v.els[i].a;
                }
                i += 1;
            }
            let maxlen = if vn + 2 > MAXW { MAXW } else { vn + 2 };
            let (w, n) = any_witness(sh, maxlen, &|e: El| match e.t {
                tag::SIG => e.a < sh.nkeys && (e.n == 0 || (visible >> e.a) & 1 == 1),
                _ => true,
            });
            let m = run_arr(sh, &w, n, &wd);
            let mut same = n == vn;
            let mut i = 0;
            while i < MAXW {
                if i < vn && i < n && !(w[i] == v.els[i]) {
                    same = false;
                }
                i += 1;
            }
            cover!(m.accepted(), "some third-party witness is accepted");
            cover!(m.accepted() && same, "the library's own witness is accepted");
            if m.accepted() {
                chk!(same, "a third party can replace the non-malleable satisfaction by a different accepted witness");
            }
        }
    }
}

// ------------------------------------------------------------------------------------------
// C07: lifted policy == spending condition.

pub fn c07(sh: &Shape) {
    note_shape(sh);
    if sh.ty.base != spec::B || !sh.liftable {
        return;
    }
    let wd = any_world(sh);
    let (w, n) = any_witness(sh, max_args(sh), &|e: El| match e.t {
        tag::SIG => (e.a < sh.nkeys) && (e.n == 0 || (wd.sigs >> e.a) & 1 == 1),
        tag::PRE => (e.a < sh.nhash) && (wd.pres >> e.a) & 1 == 1,
        _ => true,
    });
    let m = run_arr(sh, &w, n, &wd);
    let p = eval(sh.policy, &wd);
    cover!(m.accepted() || !sh.satisfiable, "some witness accepted");
    cover!(p, "policy true in some world");
    if m.accepted() {
        chk!(p, "script accepts a witness built from assets for which the lifted policy is false (policy hides a spending path)");
    }
    let row = sh.row_of(&wd);
    chk!(row.is_some(), "generator: lock vector missing from the table");
    if let Some(r) = row {
        if p {
            // the library's own witness (validated by C01) shows the path exists
            chk!(sh.rows[r].sat_m_k == W_STACK, "lifted policy is true but no satisfaction exists (policy invents a spending path)");
        }
    }
}

// ------------------------------------------------------------------------------------------
// C06: the static type is a true statement about execution, for every input stack.

pub fn c06(sh: &Shape) {
    note_shape(sh);
    let t = sh.ty;
    let wd = World { sigs: 0, pres: 0, n_lock_time: sym::u32_(), n_sequence: sym::u32_() };
    let env = sh.env(&wd);
    let depth = max_args(sh);
    let mut m = Machine::new();
    m.st[0] = SENT;
    let mut sigfree = true;
    let mut i = 0;
    while i < MAXW {
        if i < depth {
            let e = any_el(sh);
            if e.t == tag::SIG && e.n == 1 {
                sigfree = false;
            }
            m.st[1 + i] = e;
        }
        i += 1;
    }
    let init = 1 + depth;
    let mut xw = vm::EMPTY;
    if t.base == spec::W {
        xw = vm::el(tag::JUNK, 98, 9);
        m.st[init] = xw;
    }
    let init = if t.base == spec::W { init + 1 } else { init };
    m.sp = init;
    let before = m.st;
    m.run(sh.ops, &env);
    if t.base == spec::K {
        // a K fragment is completed by CHECKSIG (c:), which keeps z/o/n/d/f/e/s
        m.step(vm::o(vm::op::CHECKSIG), &env);
    }
    chk!(!m.overflow, "machine capacity exceeded (inconclusive)");
    if !m.ok {
        return;
    }
    cover!(true, "some input stack runs through");
    // result and satisfaction status per base type
    let (res, sat) = match t.base {
        spec::V => (vm::EMPTY, true),
        spec::W => {
            chk!(m.sp >= 2, "W fragment must leave two elements");
            if m.sp < 2 {
                return;
            }
            let (a, b) = (m.st[m.sp - 2], m.st[m.sp - 1]);
            chk!(a == xw || b == xw, "W fragment must leave its X element next to the result");
            let r = if b == xw { a } else { b };
            (r, vm::truthy(r))
        }
        _ => {
            chk!(m.sp >= 1, "B/K fragment must leave a result");
            if m.sp < 1 {
                return;
            }
            (m.st[m.sp - 1], vm::truthy(m.st[m.sp - 1]))
        }
    };
    cover!(sat, "satisfied on some stack");
    let pushed = match t.base {
        spec::V => 0,
        spec::W => 2,
        _ => 1,
    };
    let wextra = if t.base == spec::W { 1 } else { 0 };
    if t.z {
        chk!(m.sp + wextra == init + pushed, "z: must consume exactly zero elements");
    }
    if t.o {
        chk!(m.sp + wextra + 1 == init + pushed, "o: must consume exactly one element");
    }
    if t.z || t.o {
        // everything below the consumed part is untouched
        let keep = init - wextra - if t.o { 1 } else { 0 };
        let mut same = true;
        let mut i = 0;
        while i < 1 + MAXW {
            if i < keep && !(m.st[i] == before[i]) {
                same = false;
            }
            i += 1;
        }
        chk!(same, "z/o: elements below the arguments must be untouched");
    }
    if t.n && t.base != spec::W && sat {
        chk!(before[init - 1].t != tag::EMPTY, "n: satisfied with an empty top element");
    }
    if t.u && sat && t.base != spec::V {
        chk!(res == vm::ONE, "u: satisfaction must leave exactly 1");
    }
    if t.f && t.base != spec::V && sigfree {
        chk!(sat, "f: dissatisfied without a signature");
    }
    if t.s && sigfree {
        chk!(!sat, "s: satisfied without a signature");
    }
    if !sat && t.base != spec::V {
        cover!(true, "dissatisfied on some stack");
    }
}

/// d (existential clause): the library's own sig-free dissatisfaction is the witness.
pub fn c06_d(sh: &Shape) {
    note_shape(sh);
    if !sh.ty.d {
        return;
    }
    // row: no signatures, every preimage, first lock vector (no locks met)
    let r = ((0usize << sh.nhash) + ((1usize << sh.nhash) - 1)) * (1usize << sh.nkeys);
    let w = &sh.wits[sh.rows[r].dis_m as usize]; // malleable mode: the non-malleable mode refuses to choose between two signature-free dissatisfactions
    chk!(w.kind == W_STACK, "d: typed dissatisfiable but the library has no signature-free dissatisfaction");
    if w.kind == W_STACK {
        chk!(!has_valid_sig(w), "d: dissatisfaction needs a signature");
        let (nlt, nseq) = any_locks();
        sym::assume(meets(w.abs, w.rel, nlt, nseq));
        let extra = if sh.ty.base == spec::W { Some(SENT) } else { None };
        let mut m = run_wit(sh, w, extra, nlt, nseq);
        if sh.ty.base == spec::K {
            let env = vm::Env { ctx: sh.ctx, hashkind: sh.hashkind, n_lock_time: nlt, n_sequence: nseq };
            m.step(vm::o(vm::op::CHECKSIG), &env);
        }
        let zero = match sh.ty.base {
            spec::W => m.ok && m.sp == 2 && ((m.st[1] == SENT && m.st[0].t == tag::EMPTY) || (m.st[0] == SENT && m.st[1].t == tag::EMPTY)),
            _ => m.ok && m.sp == 1 && m.st[0].t == tag::EMPTY,
        };
        chk!(zero, "d: the signature-free dissatisfaction does not leave exactly 0");
        cover!(zero, "dissatisfaction executed");
    }
}

// ------------------------------------------------------------------------------------------
// C09: static figures are upper bounds on what the library's satisfactions measure.

fn el_size(e: El, ctx: u8) -> u32 {
    // bytes on the wire including the length prefix; worst-case signature sizes
    match e.t {
        tag::EMPTY => 1,
        tag::ONE => 2,
        tag::SIG => {
            if ctx == vm::TAP {
                66
            } else {
                73
            }
        }
        tag::KEY => {
            if ctx == vm::TAP {
                33
            } else {
                34
            }
        }
        _ => 33,
    }
}

pub fn c09(sh: &Shape) {
    note_shape(sh);
    let f = &sh.fig;
    chk!(f.script_size == f.script_len, "script_size() differs from the length of the encoding");
    let mut i = 0;
    while i < sh.wits.len() {
        let w = &sh.wits[i];
        if w.kind == W_STACK && w.roles & 0b000011 != 0 && sh.ty.base == spec::B {
            chk!(f.sat_stack_count != u32::MAX, "a satisfaction exists but the static data says unsatisfiable");
            let mut size = 0u32;
            let mut j = 0;
            while j < MAXW {
                if j < w.n as usize {
                    size += el_size(w.els[j], sh.ctx);
                }
                j += 1;
            }
            chk!(w.n as u32 <= f.sat_stack_count, "witness has more elements than max_witness_stack_count");
            chk!(size <= f.sat_stack_size, "witness is larger than max_witness_stack_size");
            chk!(w.n as u32 + 1 <= f.max_sat_elems, "witness has more elements than max_satisfaction_witness_elements");
            let (nlt, nseq) = any_locks();
            sym::assume(meets(w.abs, w.rel, nlt, nseq));
            let m = run_wit(sh, w, None, nlt, nseq);
            if m.ok {
                cover!(true, "satisfaction measured");
                if sh.ctx != vm::TAP {
                    chk!(m.ops <= f.static_ops + f.sat_exec_ops, "executed opcode count exceeds static_ops + max_exec_op_count");
                    if f.within_limits {
                        chk!(m.ops <= 201, "script declared within limits executes more than 201 opcodes");
                    }
                }
                if f.within_limits {
                    chk!(m.maxdepth <= 1000, "script declared within limits exceeds 1000 stack elements");
                }
            }
        }
        i += 1;
    }
}

// ------------------------------------------------------------------------------------------
// C17: plans are faithful to the satisfier; reported locks are necessary.

pub fn c17(sh: &Shape) {
    note_shape(sh);
    if sh.ty.base != spec::B || !sh.has_desc {
        return;
    }
    // (1) plan row == satisfier row, for a symbolic row of the table (templates are interned
    // by content, so equal templates have equal indices)
    let r = sym::usize_();
    sym::assume(r < sh.rows.len());
    let rw = &sh.rows[r];
    chk!((rw.sat_k == W_STACK) == (rw.plan_k == W_STACK), "a plan exists exactly when the non-malleable satisfier succeeds");
    chk!((rw.sat_m_k == W_STACK) == (rw.plan_m_k == W_STACK), "a malleable plan exists exactly when the malleable satisfier succeeds");
    if rw.sat_k == W_STACK && rw.plan_k == W_STACK {
        chk!(rw.sat == rw.plan, "plan template or reported time locks differ from the satisfier's");
        cover!(true, "plan compared");
    }
    if rw.sat_m_k == W_STACK && rw.plan_m_k == W_STACK {
        chk!(rw.sat_m == rw.plan_m, "malleable plan template or reported time locks differ from the satisfier's");
    }
    // (1b) the descriptor-level entry points (get_satisfaction(_mall) of the wrapper and of the nested
    // sh(wsh(..)) wrapper, into_plan(_mall) of the latter) return exactly the miniscript-level template
    let mut c = 0;
    while c < 6 {
        let code = rw.dcodes[c];
        chk!(code != 4, "a descriptor-level satisfaction contains an element the generator cannot interpret (inconclusive)");
        if c == 0 || c == 2 {
            chk!(code <= 1, "Descriptor::get_satisfaction differs from the non-malleable satisfier's template");
        } else if c == 1 || c == 3 {
            chk!(code <= 1, "Descriptor::get_satisfaction_mall differs from the malleable satisfier's template");
        } else if c == 4 {
            chk!(code <= 1, "sh(wsh(..)).into_plan differs from the non-malleable satisfier's template or locks");
        } else {
            chk!(code <= 1, "sh(wsh(..)).into_plan_mall differs from the malleable satisfier's template or locks");
        }
        c += 1;
    }
    // (2) necessity of the reported locks: with any lock value NOT meeting them the witness fails
    let mut i = 0;
    while i < sh.wits.len() {
        let w = &sh.wits[i];
        if w.kind == W_STACK && w.roles & 0b110000 != 0 && (w.abs != 0 || w.rel != 0) {
            let (nlt, nseq) = any_locks();
            sym::assume(!meets(w.abs, w.rel, nlt, nseq));
            let m = run_wit(sh, w, None, nlt, nseq);
            chk!(!m.accepted(), "witness validates although the reported time locks are not met (locks not necessary)");
            cover!(true, "lock necessity checked");
        }
        i += 1;
    }
}

// ------------------------------------------------------------------------------------------
// C04: predicted script size equals the length of the encoding (constants from the library).

pub fn c04(sh: &Shape) {
    note_shape(sh);
    cover!(true, "shape checked");
    chk!(sh.fig.script_size == sh.fig.script_len, "script_size() differs from the length of the encoding");
}

// ------------------------------------------------------------------------------------------
// C13: the interpreter agrees with script execution.  The REAL interpreter ran natively on every
// candidate witness (library satisfactions and their mutations) under a representative of every
// lock class; here, for ALL lock values of the class, the machine must accept whatever the
// interpreter accepted, the path it executed must have checked exactly the reported constraints,
// those constraints must satisfy the lifted policy, and library satisfactions of sane shapes
// must have been accepted by the interpreter.

/// Truth value of an array-form policy when exactly the reported atoms hold.
fn eval_reported(sh: &Shape, sigs: u8, pres: u8, absm: u8, relm: u8) -> bool {
    let p = sh.policy;
    let mut st = [false; 12];
    let mut sp = 0usize;
    let mut i = 0;
    while i < p.len() {
        let nd = p[i];
        let v = match nd.kind {
            P_UNSAT => false,
            P_TRIVIAL => true,
            P_KEY => (sigs >> nd.a) & 1 == 1,
            P_HASH => (pres >> nd.a) & 1 == 1,
            P_AFTER => {
                let mut r = false;
                let mut j = 0;
                while j < sh.nabs as usize {
                    if sh.abs[j] == nd.v && (absm >> j) & 1 == 1 {
                        r = true;
                    }
                    j += 1;
                }
                r
            }
            P_OLDER => {
                let mut r = false;
                let mut j = 0;
                while j < sh.nrel as usize {
                    if sh.rel[j] == nd.v && (relm >> j) & 1 == 1 {
                        r = true;
                    }
                    j += 1;
                }
                r
            }
            _ => {
                let mut c = 0u8;
                let mut j = 0;
                while j < nd.n as usize {
                    sp -= 1;
                    if st[sp] {
                        c += 1;
                    }
                    j += 1;
                }
                c >= nd.k
            }
        };
        st[sp] = v;
        sp += 1;
        i += 1;
    }
    st[0]
}

/// lock atoms (by value) among the operands the machine's CLTV / CSV executions passed
fn lock_mask(vals: &[i64; 2], n: u8, atoms: &[u32; 2], natoms: u8) -> u8 {
    let mut m = 0u8;
    let mut j = 0;
    while j < natoms as usize {
        let mut k = 0;
        while k < 2 {
            if k < n as usize && vals[k] == atoms[j] as i64 {
                m |= 1 << j;
            }
            k += 1;
        }
        j += 1;
    }
    m
}

/// lock class of (nLockTime, nSequence) under the interpreter's own predicates
fn iclass(sh: &Shape, nlt: u32, nseq: u32) -> (u8, u8, u8) {
    let (mut a, mut o) = (0u8, 0u8);
    let mut i = 0;
    while i < sh.nabs as usize {
        if crate::c13::iabs(sh.abs[i], nlt) {
            a |= 1 << i;
        }
        i += 1;
    }
    i = 0;
    while i < sh.nrel as usize {
        if crate::c13::irel(sh.rel[i], nseq) {
            o |= 1 << i;
        }
        i += 1;
    }
    (a, o, if nseq == 0xffff_ffff { 1 } else { 0 })
}

pub fn c13(t: &ITab) {
    let sh = t.sh;
    note_shape(sh);
    let mut i = 0;
    while i < t.cases.len() {
        let c = &t.cases[i];
        let w = &t.cands[c.cand as usize];
        let lv = t.lockvecs[c.lv as usize];
        let is_lib = w.roles == 1 && sh.sane;
        if c.accept || is_lib {
            // every lock value of the class the interpreter was run in
            let (nlt, nseq) = any_locks();
            sym::assume(iclass(sh, nlt, nseq) == lv);
            // natively (replay of a solver model) the REAL interpreter is run again on exactly these values
            #[cfg(not(kani))]
            let c = &crate::gen::c13::native_case(sh, w, nlt, nseq, c);
            if is_lib && meets(w.abs, w.rel, nlt, nseq) {
                chk!(c.accept, "the interpreter rejects a satisfaction the library produced for a sane descriptor");
                cover!(true, "a library satisfaction was offered to the interpreter");
            }
            if c.accept {
                let m = run_wit(sh, w, None, nlt, nseq);
                chk!(!m.overflow, "machine capacity exceeded (inconclusive)");
                chk!(m.accepted(), "the interpreter accepts a spend that script execution rejects");
                if m.accepted() {
                    chk!(m.t_sigs == c.sigs, "reported signatures differ from the signatures the executed path checked");
                    chk!(m.t_pres == c.pres, "reported preimages differ from the preimages the executed path checked");
                    chk!(m.t_ncltv <= 2 && m.t_ncsv <= 2, "machine trace capacity exceeded (inconclusive)");
                    chk!(lock_mask(&m.t_cltv, m.t_ncltv, &sh.abs, sh.nabs) == c.absm, "reported absolute locks differ from the CLTV operands the executed path checked");
                    chk!(lock_mask(&m.t_csv, m.t_ncsv, &sh.rel, sh.nrel) == c.relm, "reported relative locks differ from the CSV operands the executed path checked");
                    if sh.liftable {
                        chk!(eval_reported(sh, c.sigs, c.pres, c.absm, c.relm), "the reported constraints do not satisfy the lifted policy");
                    }
                    cover!(true, "an interpreter-accepted spend was executed");
                }
            }
        }
        i += 1;
    }
    cover!(true, "table walked");
}
