//! C08 — compiled policies keep their meaning and are sane (translation validation of the
//! compiler's outputs).  `Shape::policy` holds the INPUT policy of the compilation.
use crate::shape::{any_el, eval, Shape, World, MAXW, W_STACK};
use crate::vm::{tag, El, Machine};
use crate::{chk, cover, sym};

pub struct TrCase {
    pub name: &'static str,
    /// key id of the internal key if it is one of the policy's keys, -1 otherwise
    pub internal: i32,
    pub leaves: &'static [&'static Shape],
}

#[cfg(not(kani))]
fn note(n: &str) { eprintln!("  compiled {}", n); }
#[cfg(kani)]
fn note(_: &str) {}

fn world(sh: &Shape) -> World {
    let sigs = sym::u8_();
    let pres = sym::u8_();
    sym::assume(sigs < (1u8 << sh.nkeys) && pres < (1u8 << sh.nhash));
    World { sigs, pres, n_lock_time: sym::u32_(), n_sequence: sym::u32_() }
}

fn witness(sh: &Shape, wd: &World) -> (Machine, bool) {
    let depth = if (sh.fig.sat_stack_count as usize) < MAXW { sh.fig.sat_stack_count as usize + 1 } else { MAXW };
    let mut m = Machine::new();
    let n = sym::u8_() as usize;
    sym::assume(n <= depth);
    let mut sigfree = true;
    let mut j = 0;
    while j < MAXW {
        if j < depth {
            let e: El = any_el(sh);
            let ok = match e.t {
                tag::SIG => e.a < sh.nkeys && (e.n == 0 || (wd.sigs >> e.a) & 1 == 1),
                tag::PRE => e.a < sh.nhash && (wd.pres >> e.a) & 1 == 1,
                _ => true,
            };
            sym::assume(ok);
            if j < n {
                m.st[j] = e;
                if e.t == tag::SIG && e.n == 1 {
                    sigfree = false;
                }
            }
        }
        j += 1;
    }
    m.sp = n;
    let env = sh.env(wd);
    m.run(sh.ops, &env);
    (m, sigfree)
}

/// Same spending semantics as the input policy; every path needs a signature; output is sane
/// and within the context's limits; the non-malleable satisfier is complete on it.
pub fn sem(sh: &Shape) {
    note(sh.name);
    chk!(sh.sane, "the compiler's output does not pass the target context's default sanity rules");
    chk!(sh.fig.within_limits, "the compiler's output exceeds the target context's resource limits");
    let wd = world(sh);
    let (m, sigfree) = witness(sh, &wd);
    let p = eval(sh.policy, &wd);
    let acc = m.accepted();
    cover!(acc, "some witness accepted");
    cover!(p, "input policy true in some world");
    if acc {
        chk!(p, "compiled script accepts a witness from assets for which the input policy is false (compilation adds a spending path)");
        chk!(!sigfree, "compiled script accepts a witness without any signature");
    }
    let row = sh.row_of(&wd);
    chk!(row.is_some(), "generator: lock vector missing from the table");
    if let Some(r) = row {
        if p {
            chk!(sh.rows[r].sat_m_k == W_STACK, "input policy is true but the compiled script cannot be satisfied (compilation loses a spending path)");
            if wd.pres == (1u8 << sh.nhash) - 1 {
                chk!(sh.rows[r].sat_k == W_STACK, "input policy is true (all preimages known) but the non-malleable satisfier fails on the compiled script");
            }
        }
    }
}

/// Non-malleability of the output (same statement as C03 on it).
pub fn nm(sh: &Shape) {
    if sh.sane {
        crate::w::c03(sh);
    } else {
        chk!(false, "the compiler's output does not pass the target context's default sanity rules");
    }
}

/// Taproot descriptor: the internal key OR one of the leaves, nothing else.
pub fn tr(c: &TrCase) {
    note(c.name);
    let sh0 = c.leaves[0];
    let wd = world(sh0);
    let p = eval(sh0.policy, &wd);
    let key_spend = c.internal >= 0 && (wd.sigs >> (c.internal as u8)) & 1 == 1;
    let mut any_sat = key_spend;
    let mut i = 0;
    while i < c.leaves.len() {
        let sh = c.leaves[i];
        chk!(sh.sane, "a leaf of the compiled tree does not pass Tap's default sanity rules");
        let (m, sigfree) = witness(sh, &wd);
        if m.accepted() {
            chk!(p, "a leaf of the compiled tree accepts a witness for which the input policy is false");
            chk!(!sigfree, "a leaf of the compiled tree accepts a witness without any signature");
        }
        cover!(m.accepted(), "some leaf witness accepted");
        let row = sh.row_of(&wd);
        chk!(row.is_some(), "generator: lock vector missing from the table");
        if let Some(r) = row {
            if sh.rows[r].sat_m_k == W_STACK {
                any_sat = true;
            }
        }
        i += 1;
    }
    if key_spend {
        chk!(p, "the internal key alone can spend but the input policy is false");
    }
    if p {
        chk!(any_sat, "input policy is true but neither the key path nor any leaf can be satisfied");
    }
    cover!(p, "input policy true");
}
