//! C13 (rule level) — the interpreter's time-lock evaluators on the REAL code (hook
//! `interpreter::verif_hooks`), all u32 pairs: `Stack::evaluate_after` / `evaluate_older` decide
//! exactly the predicates `iabs` / `irel` below.  The witness-level harness `w::c13` quantifies
//! over the classes of THESE predicates (the interpreter ran natively on one representative of
//! each class), so a transaction value on which they differ from BIP65 / BIP112 is found there.
use miniscript::bitcoin::{absolute, relative, Sequence};
use miniscript::interpreter::verif_hooks as ih;
use miniscript::{AbsLockTime, RelLockTime};

use crate::{chk, cover, sym};

/// what `evaluate_after` decides: same unit and script value <= nLockTime (nSequence is not consulted)
pub fn iabs(t: u32, nlt: u32) -> bool { ((t < 500_000_000) == (nlt < 500_000_000)) && t <= nlt }
/// what `evaluate_older` decides
pub fn irel(t: u32, nseq: u32) -> bool { nseq & (1 << 31) == 0 && (t & 0x0040_0000) == (nseq & 0x0040_0000) && (t & 0xffff) <= (nseq & 0xffff) }

#[cfg_attr(kani, kani::proof)]
#[cfg_attr(kani, kani::unwind(3))]
pub fn c13_after_rule() {
    let (t, nlt) = (sym::u32_(), sym::u32_());
    if let Ok(n) = AbsLockTime::from_consensus(t) {
        let r = ih::evaluate_after(absolute::LockTime::from(n), absolute::LockTime::from_consensus(nlt));
        chk!(r.is_some() == iabs(t, nlt), "evaluate_after accepts exactly same-unit locks with n <= nLockTime");
        if let Some(v) = r {
            chk!(v == t, "evaluate_after reports the script's own lock value");
        }
        cover!(r.is_some(), "met");
        cover!(r.is_none() && (t < 500_000_000) == (nlt < 500_000_000), "same unit, not met");
        cover!(r.is_none() && (t < 500_000_000) != (nlt < 500_000_000), "unit mismatch");
    }
}

#[cfg_attr(kani, kani::proof)]
#[cfg_attr(kani, kani::unwind(3))]
pub fn c13_older_rule() {
    let (t, nseq) = (sym::u32_(), sym::u32_());
    if let Ok(n) = RelLockTime::from_consensus(t) {
        let r = ih::evaluate_older(relative::LockTime::from(n), Sequence::from_consensus(nseq));
        chk!(r.is_some() == irel(t, nseq), "evaluate_older accepts exactly enabled same-unit sequences with n <= nSequence (masked)");
        if let Some(v) = r {
            chk!(v == t & 0x0040_ffff, "evaluate_older reports the script's own lock value");
        }
        cover!(r.is_some(), "met");
        cover!(r.is_none() && nseq & (1 << 31) != 0, "disabled");
        cover!(r.is_none() && nseq & (1 << 31) == 0 && (t & 0x0040_0000) != (nseq & 0x0040_0000), "unit mismatch");
    }
}

/// The interpreter's BIP65 finality test is `Sequence::enables_absolute_lock_time`; the lock
/// classes of `w::c13` carry "nSequence == 0xffffffff" as their third component.
#[cfg_attr(kani, kani::proof)]
pub fn c13_final_rule() {
    let nseq = sym::u32_();
    let s = Sequence::from_consensus(nseq);
    chk!(s.enables_absolute_lock_time() == (nseq != 0xffff_ffff), "enables_absolute_lock_time is 'not final'");
    cover!(nseq == 0xffff_ffff, "final");
}
