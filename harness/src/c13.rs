//! C13 (rule level) — the interpreter's time-lock evaluators on the REAL code (hook
//! `interpreter::verif_hooks`), all u32 pairs: `Stack::evaluate_after` / `evaluate_older` decide
//! exactly the predicates `iabs` / `irel` below.  The witness-level harness `w::c13` quantifies
//! over the classes of THESE predicates (the interpreter ran natively on one representative of
//! each class), so a transaction value on which they differ from BIP65 / BIP112 is found there.
use miniscript::bitcoin::{absolute, relative, Sequence};
use miniscript::interpreter::verif_hooks as ih;
use miniscript::{AbsLockTime, RelLockTime};

use crate::{chk, cover, sym};

/// what `evaluate_after` decides: same unit and script value <= nLockTime (nSequence is not consulted)
pub fn iabs(t: u32, nlt: u32) -> bool { ((t < 500_000_000) == (nlt < 500_000_000)) && t <= nlt }
/// what `evaluate_older` decides
pub fn irel(t: u32, nseq: u32) -> bool { nseq & (1 << 31) == 0 && (t & 0x0040_0000) == (nseq & 0x0040_0000) && (t & 0xffff) <= (nseq & 0xffff) }

// @h c13_after_rule timeout=900 mem=4
#[cfg_attr(kani, kani::proof)]
#[cfg_attr(kani, kani::unwind(3))]
pub fn c13_after_rule() {
    let (t, nlt) = (sym::u32_(), sym::u32_());
    if let Ok(n) = AbsLockTime::from_consensus(t) {
        let r = ih::evaluate_after(absolute::LockTime::from(n), absolute::LockTime::from_consensus(nlt));
        chk!(r.is_some() == iabs(t, nlt), "evaluate_after accepts exactly same-unit locks with n <= nLockTime");
        if let Some(v) = r {
            chk!(v == t, "evaluate_after reports the script's own lock value");
        }
        cover!(r.is_some(), "met");
        cover!(r.is_none() && (t < 500_000_000) == (nlt < 500_000_000), "same unit, not met");
        cover!(r.is_none() && (t < 500_000_000) != (nlt < 500_000_000), "unit mismatch");
    }
}

// @h c13_older_rule timeout=900 mem=4
#[cfg_attr(kani, kani::proof)]
#[cfg_attr(kani, kani::unwind(3))]
pub fn c13_older_rule() {
    let (t, nseq) = (sym::u32_(), sym::u32_());
    if let Ok(n) = RelLockTime::from_consensus(t) {
        let r = ih::evaluate_older(relative::LockTime::from(n), Sequence::from_consensus(nseq));
        chk!(r.is_some() == irel(t, nseq), "evaluate_older accepts exactly enabled same-unit sequences with n <= nSequence (masked)");
        if let Some(v) = r {
            chk!(v == t & 0x0040_ffff, "evaluate_older reports the script's own lock value");
        }
        cover!(r.is_some(), "met");
        cover!(r.is_none() && nseq & (1 << 31) != 0, "disabled");
        cover!(r.is_none() && nseq & (1 << 31) == 0 && (t & 0x0040_0000) != (nseq & 0x0040_0000), "unit mismatch");
    }
}

/// The interpreter's BIP65 finality test is `Sequence::enables_absolute_lock_time`; the lock
/// classes of `w::c13` carry "nSequence == 0xffffffff" as their third component.
// @h c13_final_rule timeout=900 mem=4
#[cfg_attr(kani, kani::proof)]
pub fn c13_final_rule() {
    let nseq = sym::u32_();
    let s = Sequence::from_consensus(nseq);
    chk!(s.enables_absolute_lock_time() == (nseq != 0xffff_ffff), "enables_absolute_lock_time is 'not final'");
    cover!(nseq == 0xffff_ffff, "final");
}

// ------------------------------------------------------------------------------------------
// Hash-lock evaluators (hook H6b).  The compression functions are replaced by stubs that leave
// the engine state untouched (every message then hashes to one constant digest), which keeps all
// control flow of the evaluators reachable: with a symbolic expected digest both "matches" and
// "does not match" are explored for every preimage length.  Decided: the evaluator never panics;
// it reports a HashLock only for a 32-byte push and then reports exactly that push; any other
// length and any non-push top element is an error (Script: SIZE 32 EQUALVERIFY fails); a 32-byte
// push with another digest leaves `Dissatisfied`.

#[cfg(kani)]
mod hash_stubs {
    //! Hash functions as arbitrary digests: feeding an engine does nothing, finishing it yields an
    //! arbitrary value.  More general than any concrete hash function - every outcome of the
    //! comparison with the expected digest is explored for every input.
    use miniscript::bitcoin::hashes::{hash160, ripemd160, sha256, sha256d, Hash};
    pub fn sha256_input(_e: &mut sha256::HashEngine, _d: &[u8]) {}
    pub fn ripemd160_input(_e: &mut ripemd160::HashEngine, _d: &[u8]) {}
    pub fn sha256_fin(e: sha256::HashEngine) -> sha256::Hash {
        core::mem::forget(e);
        sha256::Hash::from_byte_array(kani::any())
    }
    pub fn sha256d_fin(e: sha256::HashEngine) -> sha256d::Hash {
        core::mem::forget(e);
        sha256d::Hash::from_byte_array(kani::any())
    }
    pub fn ripemd160_fin(e: ripemd160::HashEngine) -> ripemd160::Hash {
        core::mem::forget(e);
        ripemd160::Hash::from_byte_array(kani::any())
    }
    pub fn hash160_fin(e: sha256::HashEngine) -> hash160::Hash {
        core::mem::forget(e);
        hash160::Hash::from_byte_array(kani::any())
    }
}

fn hash_rule(kind: u8, n: usize) {
    // the length is concrete per harness (0, 1, 31, 32, 33): a symbolic length makes the engine's
    // buffer copies explode (measured: out of memory at 10 GB)
    let mut buf = [0u8; 34];
    let mut i = 0;
    while i < 34 {
        buf[i] = sym::u8_();
        i += 1;
    }
    let absent = sym::bool_();
    let mut digest = [0u8; 32];
    i = 0;
    while i < 32 {
        digest[i] = sym::u8_();
        i += 1;
    }
    let top = if absent { None } else { Some(&buf[..n]) };
    let (outcome, pre) = ih::evaluate_hash(kind, top, &digest);
    chk!(outcome != 3, "hash evaluator leaves the stack in an unexpected shape");
    let is_push = !absent && n != 0 && !(n == 1 && buf[0] == 1);
    if !is_push || n != 32 {
        chk!(outcome == 2, "a missing, boolean or wrong-length preimage must be an error (SIZE 32 EQUALVERIFY fails)");
    } else {
        chk!(outcome == 0 || outcome == 1, "a 32-byte push either satisfies or dissatisfies the hash lock");
    }
    if outcome == 1 {
        let mut same = true;
        if let Some(p) = pre {
            i = 0;
            while i < 32 {
                if p[i] != buf[i] {
                    same = false;
                }
                i += 1;
            }
        } else {
            same = false;
        }
        chk!(same, "the reported preimage is the witness element");
    }
    cover!(outcome == 0, "dissatisfied");
    cover!(outcome == 1, "satisfied");
    cover!(outcome == 2 && is_push, "wrong length");
    cover!(outcome == 2 && !is_push, "boolean or missing top element");
}

macro_rules! hr {
    ($name:ident, $k:expr, $n:expr) => {
        #[cfg_attr(kani, kani::proof)]
        #[cfg_attr(kani, kani::unwind(66))]
        #[cfg_attr(kani, kani::stub(<miniscript::bitcoin::hashes::sha256::HashEngine as miniscript::bitcoin::hashes::HashEngine>::input, hash_stubs::sha256_input))]
        #[cfg_attr(kani, kani::stub(<miniscript::bitcoin::hashes::ripemd160::HashEngine as miniscript::bitcoin::hashes::HashEngine>::input, hash_stubs::ripemd160_input))]
        #[cfg_attr(kani, kani::stub(miniscript::bitcoin::hashes::sha256::from_engine, hash_stubs::sha256_fin))]
        #[cfg_attr(kani, kani::stub(miniscript::bitcoin::hashes::sha256d::from_engine, hash_stubs::sha256d_fin))]
        #[cfg_attr(kani, kani::stub(miniscript::bitcoin::hashes::ripemd160::from_engine, hash_stubs::ripemd160_fin))]
        #[cfg_attr(kani, kani::stub(miniscript::bitcoin::hashes::hash160::from_engine, hash_stubs::hash160_fin))]
        pub fn $name() { hash_rule($k, $n) }
    };
}
// @h c13_hash_rule_* timeout=1800 mem=4 covers=any
// @h c13_hash_rule_hash256_* tier=thorough
// @h c13_hash_rule_ripemd160_* tier=thorough
hr!(c13_hash_rule_sha256_0, 0, 0);
hr!(c13_hash_rule_sha256_1, 0, 1);
hr!(c13_hash_rule_sha256_31, 0, 31);
hr!(c13_hash_rule_sha256_32, 0, 32);
hr!(c13_hash_rule_sha256_33, 0, 33);
hr!(c13_hash_rule_hash256_31, 1, 31);
hr!(c13_hash_rule_hash256_32, 1, 32);
hr!(c13_hash_rule_hash256_33, 1, 33);
hr!(c13_hash_rule_ripemd160_31, 2, 31);
hr!(c13_hash_rule_ripemd160_32, 2, 32);
hr!(c13_hash_rule_ripemd160_33, 2, 33);
hr!(c13_hash_rule_hash160_31, 3, 31);
hr!(c13_hash_rule_hash160_32, 3, 32);
hr!(c13_hash_rule_hash160_33, 3, 33);
