//! C12 generator: offers every enumerated term (all base types) to the library's parsers and
//! constructors natively and records who accepted it, plus the verdict of single validation
//! switches; the harness decides what the accepted scripts do / are.
use std::fmt::Write as _;
use std::str::FromStr;

use miniscript::descriptor::{Bare, Sh, TapTree, Tr, Wsh};
use miniscript::{BareCtx, Descriptor, Legacy, Miniscript, Segwitv0, Tap, ValidationParams};

use super::{build_shape, emit_shape, enumerate, hash_str, json_escape, write_out, CtxInfo, Fix, Inst, Pk, PALETTES, PRELUDE, T};
use crate::spec;

struct Case {
    shape: usize,
    /// (entry point, accepted)
    entries: Vec<(&'static str, bool)>,
    desc_parser_ok: bool,
    ms_consensus_parser_ok: bool,
    /// 1 = the consensus parameters reject only because of or_i / d: in a pre-segwit context
    consensus_reject_if: bool,
    /// validate() with only `allow_sigless_branch = false` on top of MAX
    sigless_rejected: bool,
    /// (limit kind 0 ops / 1 witness items / 2 script size, limit, accepted, figure)
    limits: Vec<(u8, u32, bool, u32)>,
    dup_expected: bool,
    dup_rejected: bool,
    bare_nonstandard: bool,
}

fn ctx_entries<Ctx: CtxInfo>(fix: &Fix, ms: &Miniscript<Pk, Ctx>, s: &str) -> (Vec<(&'static str, bool)>, bool)
where
{
    let mut e: Vec<(&'static str, bool)> = vec![];
    let mut desc_ok = false;
    match Ctx::ID {
        crate::vm::SEGWITV0 => {
            let m = Miniscript::<Pk, Segwitv0>::from_str_with_validation_params(s, &ValidationParams::MAX).unwrap();
            e.push(("Wsh::new", Wsh::new(m.clone()).is_ok()));
            e.push(("Descriptor::new_wsh", Descriptor::new_wsh(m.clone()).is_ok()));
            e.push(("Descriptor::new_sh_wsh", Descriptor::new_sh_wsh(m.clone()).is_ok()));
            let d = Descriptor::<Pk>::from_str(&format!("wsh({s})")).is_ok();
            e.push(("Descriptor::from_str(wsh(..))", d));
            let d2 = Descriptor::<Pk>::from_str(&format!("sh(wsh({s}))")).is_ok();
            e.push(("Descriptor::from_str(sh(wsh(..)))", d2));
            desc_ok = d;
        }
        crate::vm::LEGACY => {
            let m = Miniscript::<Pk, Legacy>::from_str_with_validation_params(s, &ValidationParams::MAX).unwrap();
            e.push(("Sh::new", Sh::new(m.clone()).is_ok()));
            e.push(("Descriptor::new_sh", Descriptor::new_sh(m.clone()).is_ok()));
            let d = Descriptor::<Pk>::from_str(&format!("sh({s})")).is_ok();
            e.push(("Descriptor::from_str(sh(..))", d));
            desc_ok = d;
        }
        crate::vm::BARE => {
            let m = Miniscript::<Pk, BareCtx>::from_str_with_validation_params(s, &ValidationParams::MAX).unwrap();
            e.push(("Bare::new", Bare::new(m.clone()).is_ok()));
            e.push(("Descriptor::new_bare", Descriptor::new_bare(m.clone()).is_ok()));
            let d = Descriptor::<Pk>::from_str(s).is_ok();
            e.push(("Descriptor::from_str(bare)", d));
            desc_ok = d;
        }
        _ => {
            let m = Miniscript::<Pk, Tap>::from_str_with_validation_params(s, &ValidationParams::MAX).unwrap();
            let tr = Tr::new(fix.internal.clone(), Some(TapTree::leaf(m.clone())));
            e.push(("Tr::new(leaf)", tr.is_ok()));
            e.push(("Descriptor::new_tr(leaf)", Descriptor::new_tr(fix.internal.clone(), Some(TapTree::leaf(m.clone()))).is_ok()));
            let d = Descriptor::<Pk>::from_str(&format!("tr({},{s})", fix.internal)).is_ok();
            e.push(("Descriptor::from_str(tr(K,..))", d));
            desc_ok = d;
        }
    }
    e.push(("Miniscript::from_str", Miniscript::<Pk, Ctx>::from_str(s).is_ok()));
    e.push(("Miniscript::from_str_insane", Miniscript::<Pk, Ctx>::from_str_insane(s).is_ok()));
    let script = ms.encode();
    e.push(("Miniscript::decode", Miniscript::<Ctx::Key, Ctx>::decode(&script).is_ok()));
    e.push(("Miniscript::decode_consensus", Miniscript::<Ctx::Key, Ctx>::decode_consensus(&script).is_ok()));
    e.push(("validate(Ctx::SANE)", ms.validate(&Ctx::SANE).is_ok()));
    e.push(("validate(Ctx::CONSENSUS)", ms.validate(&Ctx::CONSENSUS).is_ok()));
    (e, desc_ok)
}

fn gen_ctx<Ctx: CtxInfo>(fix: &Fix, tier: &str, seed: u64, maxn: usize, cap: usize, src: &mut String, cases: &mut Vec<Case>, names: &mut Vec<String>, samples: &mut Vec<String>, shapes_meta: &mut Vec<(usize, usize)>) {
    let mut ents = enumerate::<Ctx>(fix, Ctx::ID, maxn);
    ents.sort_by_key(|e| (e.nodes.min(3), hash_str(&e.class, if tier == "thorough" { seed } else { 0 })));
    ents.truncate(cap);
    if Ctx::ID == crate::vm::BARE {
        // multisigs of more than three keys: not a standard bare form
        for t in [T::Multi(1, 4), T::Multi(2, 4), T::Multi(3, 4), T::SMulti(1, 4), T::SMulti(2, 4)] {
            ents.push(super::Entry { nodes: 1, class: format!("{:?}", t), base: spec::B, t });
        }
    }
    for e in &ents {
        let g = match build_shape::<Ctx>(fix, &e.t, PALETTES[0], true) {
            Ok(g) => g,
            Err(_) => continue,
        };
        let mut inst = Inst::new(fix, PALETTES[0]);
        let ms: Miniscript<Pk, Ctx> = inst.build(&e.t).unwrap();
        let s = ms.to_string();
        if Miniscript::<Pk, Ctx>::from_str_with_validation_params(&s, &ValidationParams::MAX).is_err() {
            continue; // printing/parsing is C10's business
        }
        let (entries, desc_ok) = ctx_entries::<Ctx>(fix, &ms, &s);
        let cons_ok = Miniscript::<Pk, Ctx>::from_str_with_validation_params(&s, &Ctx::CONSENSUS).is_ok();
        let consensus_reject_if = matches!(ms.validate(&Ctx::CONSENSUS), Err(miniscript::ValidationError::IllegalOrI) | Err(miniscript::ValidationError::IllegalDupIf));
        let mut sigless = ValidationParams::MAX;
        sigless.allow_sigless_branch = false;
        let sigless_rejected = ms.validate(&sigless).is_err();
        // limits around the script's own figures
        let mut limits = vec![];
        if let Some(sd) = ms.ext.sat_data {
            let ops = (ms.ext.static_ops + sd.max_exec_op_count) as u32;
            let items = (sd.max_witness_stack_count + 1) as u32;
            let size = ms.script_size() as u32;
            for (kind, fig) in [(0u8, ops), (1, items), (2, size)] {
                for l in [fig.saturating_sub(1), fig, fig + 1] {
                    let mut p = ValidationParams::MAX;
                    match kind {
                        0 => p.max_opcode_count = l as usize,
                        1 => p.max_witness_items = l as usize,
                        _ => p.max_script_size = l as usize,
                    }
                    limits.push((kind, l, ms.validate(&p).is_ok(), fig));
                }
            }
        }
        // duplicate keys: same term with every key leaf set to the same key
        let (nk, _, _, _) = e.t.atoms();
        let mut dup_expected = false;
        let mut dup_rejected = false;
        if nk >= 2 && !has_multi(&e.t) {
            let s_dup = {
                let mut x = s.clone();
                for k in 1..nk {
                    x = x.replace(&fix.pks[k].to_string(), &fix.pks[0].to_string());
                }
                x
            };
            if let Ok(m) = Miniscript::<Pk, Ctx>::from_str_with_validation_params(&s_dup, &ValidationParams::MAX) {
                dup_expected = true;
                let mut pd = ValidationParams::MAX;
                pd.allow_duplicate_keys = false;
                dup_rejected = m.validate(&pd).is_err();
            }
        }
        let idx = names.len();
        emit_shape(src, &format!("SH{idx}"), &g);
        if samples.len() < 12 && idx % 37 == 0 {
            samples.push(format!("{{\"term\": \"{}\", \"ctx\": {}, \"type\": \"{}\", \"accepted_by\": [{}]}}", json_escape(&g.name), g.ctx, g.ty_str, entries.iter().filter(|x| x.1).map(|x| format!("\"{}\"", x.0)).collect::<Vec<_>>().join(",")));
        }
        names.push(g.name.clone());
        shapes_meta.push((g.rows.len(), g.ops.len().max(g.wits.len()).max(g.policy.len())));
        let bare_nonstandard = !match &e.t {
            T::C(x) => matches!(**x, T::PkK | T::PkH),
            T::Multi(_, n) | T::SMulti(_, n) => *n <= 3,
            _ => false,
        };
        cases.push(Case { shape: idx, entries, desc_parser_ok: desc_ok, ms_consensus_parser_ok: cons_ok, consensus_reject_if, sigless_rejected, limits, dup_expected, dup_rejected, bare_nonstandard });
        let _ = (g.base == spec::B,);
    }
}

fn has_multi(t: &T) -> bool { format!("{:?}", t).contains("Multi") }

pub fn generate(fix: &Fix, tier: &str, seed: u64, out_dir: &str) {
    let mut src = String::from(PRELUDE);
    src.push_str("use crate::c12::Acc;\n");
    let mut cases = vec![];
    let mut names = vec![];
    let mut samples = vec![];
    let mut shapes_meta: Vec<(usize, usize)> = vec![];
    let th = tier == "thorough";
    gen_ctx::<Segwitv0>(fix, tier, seed, if th { 4 } else { 3 }, if th { 700 } else { 220 }, &mut src, &mut cases, &mut names, &mut samples, &mut shapes_meta);
    gen_ctx::<Tap>(fix, tier, seed, if th { 4 } else { 3 }, if th { 500 } else { 140 }, &mut src, &mut cases, &mut names, &mut samples, &mut shapes_meta);
    gen_ctx::<Legacy>(fix, tier, seed, 3, if th { 200 } else { 80 }, &mut src, &mut cases, &mut names, &mut samples, &mut shapes_meta);
    gen_ctx::<BareCtx>(fix, tier, seed, 3, if th { 120 } else { 50 }, &mut src, &mut cases, &mut names, &mut samples, &mut shapes_meta);
    for c in &cases {
        let _ = write!(src, "pub static AC{}: Acc = Acc{{shape:&SH{},entries:&[", c.shape, c.shape);
        for (n, a) in &c.entries {
            let _ = write!(src, "({:?},{}),", n, a);
        }
        let _ = write!(src, "],desc_parser_ok:{},ms_consensus_parser_ok:{},consensus_reject_if:{},sigless_rejected:{},limits:&[", c.desc_parser_ok, c.ms_consensus_parser_ok, c.consensus_reject_if, c.sigless_rejected);
        for l in &c.limits {
            let _ = write!(src, "({},{},{},{}),", l.0, l.1, l.2, l.3);
        }
        let _ = writeln!(src, "],dup_expected:{},dup_rejected:{},bare_nonstandard:{}}};", c.dup_expected, c.dup_rejected, c.bare_nonstandard);
    }
    for (bi, chunk) in cases.chunks(6).enumerate() {
        let mut unwind = 24usize;
        for c in chunk {
            unwind = unwind.max(shapes_meta[c.shape].0).max(shapes_meta[c.shape].1).max(c.entries.len()).max(c.limits.len());
        }
        unwind += 2;
        let _ = writeln!(src, "// @h c12_acc_{bi:03} kind=V programs={} timeout=1500 mem=4 covers=any", chunk.len());
        let _ = writeln!(src, "#[cfg_attr(kani, kani::proof)]\n#[cfg_attr(kani, kani::unwind({unwind}))]\npub fn c12_acc_{bi:03}() {{");
        for c in chunk {
            let _ = writeln!(src, "    crate::c12::acc(&AC{}); // {}", c.shape, names[c.shape]);
        }
        let _ = writeln!(src, "}}");
    }
    write_out(out_dir, "c12.rs", &src);
    let info = format!("{{\"programs\": {}, \"samples\": [{}]}}", cases.len(), samples.join(","));
    write_out(out_dir, "c12_info.json", &info);
    let modp = format!("{out_dir}/mod.rs");
    let cur = std::fs::read_to_string(&modp).unwrap_or_default();
    if !cur.contains("pub mod c12;") {
        std::fs::write(&modp, format!("{}pub mod c12;\n", if cur.is_empty() { "// generated - do not edit\n".to_string() } else { cur })).unwrap();
    }
    println!("generated {} acceptance cases", cases.len());
}
