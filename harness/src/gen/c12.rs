//! generator for c12 artefacts (filled in later)
use super::Fix;
pub fn generate(_fix: &Fix, _tier: &str, _seed: u64, _out_dir: &str) {}
