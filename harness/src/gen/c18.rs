//! C18 generator: runs the REAL policy transformations natively on enumerated abstract and
//! concrete policies and emits inputs and outputs in atom-array form; the harness decides
//! truth-table statements over all assignments to the atoms.
use std::fmt::Write as _;
use std::sync::Arc;

use miniscript::bitcoin::{absolute, relative, Sequence};
use miniscript::policy::{Concrete, Liftable, Semantic};
use miniscript::{AbsLockTime, RelLockTime, Threshold};

use super::{hash_str, json_escape, write_out, Fix, Pk};

#[derive(Clone, Debug, PartialEq, Eq, Hash, PartialOrd, Ord)]
pub enum P {
    U,
    T,
    K(u8),
    A(u32),
    O(u32),
    H(u8),
    Th(u8, Vec<P>),
}

impl P {
    fn nodes(&self) -> usize {
        match self {
            P::Th(_, v) => 1 + v.iter().map(|x| x.nodes()).sum::<usize>(),
            _ => 1,
        }
    }
    fn show(&self) -> String {
        match self {
            P::U => "0".into(),
            P::T => "1".into(),
            P::K(i) => format!("pk(K{i})"),
            P::A(v) => format!("after({v})"),
            P::O(v) => format!("older({v})"),
            P::H(j) => format!("sha256(H{j})"),
            P::Th(k, v) => format!("thresh({},{})", k, v.iter().map(|x| x.show()).collect::<Vec<_>>().join(",")),
        }
    }
    fn to_sem(&self, fix: &Fix) -> Semantic<Pk> {
        match self {
            P::U => Semantic::Unsatisfiable,
            P::T => Semantic::Trivial,
            P::K(i) => Semantic::Key(fix.dkeys[*i as usize].clone()),
            P::A(v) => Semantic::After(AbsLockTime::from_consensus(*v).unwrap()),
            P::O(v) => Semantic::Older(RelLockTime::from_consensus(*v).unwrap()),
            P::H(j) => Semantic::Sha256(fix.sha[*j as usize]),
            P::Th(k, v) => Semantic::Thresh(Threshold::new(*k as usize, v.iter().map(|x| Arc::new(x.to_sem(fix))).collect()).unwrap()),
        }
    }
    /// and / or / thresh in the concrete language (and, or are binary there)
    pub fn to_concrete(&self, fix: &Fix) -> Option<Concrete<Pk>> {
        Some(match self {
            P::U => Concrete::Unsatisfiable,
            P::T => Concrete::Trivial,
            P::K(i) => Concrete::Key(fix.dkeys[*i as usize].clone()),
            P::A(v) => Concrete::After(AbsLockTime::from_consensus(*v).unwrap()),
            P::O(v) => Concrete::Older(RelLockTime::from_consensus(*v).unwrap()),
            P::H(j) => Concrete::Sha256(fix.sha[*j as usize]),
            P::Th(k, v) => {
                let subs: Option<Vec<_>> = v.iter().map(|x| x.to_concrete(fix).map(Arc::new)).collect();
                let subs = subs?;
                if v.len() == 2 && *k == 2 {
                    Concrete::And(subs)
                } else if v.len() == 2 && *k == 1 {
                    Concrete::Or(subs.into_iter().enumerate().map(|(i, s)| (1 + i, s)).collect())
                } else {
                    Concrete::Thresh(Threshold::new(*k as usize, subs).ok()?)
                }
            }
        })
    }
    fn leaves(&self, out: &mut Vec<P>) {
        match self {
            P::Th(_, v) => v.iter().for_each(|x| x.leaves(out)),
            P::U | P::T => {}
            l => {
                if !out.contains(l) {
                    out.push(l.clone())
                }
            }
        }
    }
    fn key_occurrences(&self) -> usize {
        match self {
            P::K(_) => 1,
            P::Th(_, v) => v.iter().map(|x| x.key_occurrences()).sum(),
            _ => 0,
        }
    }
}

/// atom-array form (post-order): (kind, atom, k, n); kind 0 unsat, 1 trivial, 2 atom, 6 thresh
type AP = Vec<(u8, u8, u8, u8)>;

fn sem_to_ap(fix: &Fix, p: &Semantic<Pk>, atoms: &mut Vec<P>, out: &mut AP) {
    let mut atom = |l: P, out: &mut AP| {
        let i = match atoms.iter().position(|a| *a == l) {
            Some(i) => i,
            None => {
                atoms.push(l);
                atoms.len() - 1
            }
        };
        out.push((2, i as u8, 0, 0));
    };
    match p {
        Semantic::Unsatisfiable => out.push((0, 0, 0, 0)),
        Semantic::Trivial => out.push((1, 0, 0, 0)),
        Semantic::Key(k) => atom(P::K(fix.key_id(k).expect("key")), out),
        Semantic::After(t) => atom(P::A(t.to_consensus_u32()), out),
        Semantic::Older(t) => atom(P::O(t.to_consensus_u32()), out),
        Semantic::Sha256(h) => atom(P::H(fix.sha.iter().position(|x| x == h).expect("hash") as u8), out),
        Semantic::Thresh(th) => {
            for c in th.iter() {
                sem_to_ap(fix, c, atoms, out);
            }
            out.push((6, 0, th.k() as u8, th.n() as u8));
        }
        _ => panic!("unexpected hash kind"),
    }
}

fn p_to_ap(p: &P, atoms: &mut Vec<P>, out: &mut AP) {
    match p {
        P::U => out.push((0, 0, 0, 0)),
        P::T => out.push((1, 0, 0, 0)),
        P::Th(k, v) => {
            for c in v {
                p_to_ap(c, atoms, out);
            }
            out.push((6, 0, *k, v.len() as u8));
        }
        l => {
            let i = match atoms.iter().position(|a| a == l) {
                Some(i) => i,
                None => {
                    atoms.push(l.clone());
                    atoms.len() - 1
                }
            };
            out.push((2, i as u8, 0, 0));
        }
    }
}

fn eval_ap(p: &AP, mask: u16) -> bool {
    let mut st: Vec<bool> = vec![];
    for nd in p {
        let v = match nd.0 {
            0 => false,
            1 => true,
            2 => (mask >> nd.1) & 1 == 1,
            _ => {
                let mut c = 0;
                for _ in 0..nd.3 {
                    if st.pop().unwrap() {
                        c += 1;
                    }
                }
                c >= nd.2
            }
        };
        st.push(v);
    }
    st[0]
}

fn rel_implied(t: u32, a: u32) -> bool { (t & 0x40_0000) == (a & 0x40_0000) && (t & 0xffff) <= (a & 0xffff) }
fn abs_implied(t: u32, a: u32) -> bool { ((t < 500_000_000) == (a < 500_000_000)) && t <= a }

fn subst(p: &P, f: &dyn Fn(&P) -> bool) -> P {
    match p {
        P::Th(k, v) => P::Th(*k, v.iter().map(|x| subst(x, f)).collect()),
        l => {
            if f(l) {
                l.clone()
            } else {
                P::U
            }
        }
    }
}

/// All spending paths of a policy as atom sets: a threshold picks exactly k children.
fn paths(p: &P, atoms: &mut Vec<P>, dead_ok: bool) -> Vec<u16> {
    match p {
        P::U => if dead_ok { vec![0] } else { vec![] },
        P::T => vec![0],
        P::Th(k, v) => {
            let subs: Vec<Vec<u16>> = v.iter().map(|c| paths(c, atoms, dead_ok)).collect();
            let n = v.len();
            let mut out: Vec<u16> = vec![];
            for sel in 0u32..(1 << n) {
                if sel.count_ones() != *k as u32 {
                    continue;
                }
                let mut acc: Vec<u16> = vec![0];
                for i in 0..n {
                    if (sel >> i) & 1 == 1 {
                        let mut next = vec![];
                        for a in &acc {
                            for b in &subs[i] {
                                if !next.contains(&(a | b)) {
                                    next.push(a | b);
                                }
                            }
                        }
                        acc = next;
                    }
                }
                for a in acc {
                    if !out.contains(&a) {
                        out.push(a);
                    }
                }
            }
            out
        }
        l => {
            let i = atoms.iter().position(|a| a == l).expect("atom");
            vec![1 << i]
        }
    }
}

fn emit_ap(out: &mut String, p: &AP) {
    out.push_str("&[");
    for n in p {
        let _ = write!(out, "({},{},{},{}),", n.0, n.1, n.2, n.3);
    }
    out.push(']');
}

fn enumerate(tier: &str, seed: u64) -> Vec<P> {
    let leaves = vec![P::U, P::T, P::K(0), P::K(1), P::K(2), P::A(100), P::A(200), P::A(500_000_100), P::O(10), P::O(20), P::O(0x40_0000 | 10), P::H(0)];
    let mut l1: Vec<P> = vec![];
    for a in &leaves {
        for b in &leaves {
            for k in 1..=2u8 {
                l1.push(P::Th(k, vec![a.clone(), b.clone()]));
            }
        }
    }
    let small: Vec<P> = vec![P::U, P::T, P::K(0), P::K(1), P::A(100), P::A(500_000_100), P::O(10), P::O(0x40_0000 | 10), P::H(0)];
    let mut l1_3: Vec<P> = vec![];
    for a in &small {
        for b in &small {
            for c in &small {
                for k in 1..=3u8 {
                    l1_3.push(P::Th(k, vec![a.clone(), b.clone(), c.clone()]));
                }
            }
        }
    }
    // level 2: one or two compound children
    let mut l2: Vec<P> = vec![];
    let inner: Vec<P> = l1.iter().filter(|p| hash_str(&p.show(), 3) % 4 == 0).cloned().collect();
    for a in &inner {
        for b in &small {
            for k in 1..=2u8 {
                l2.push(P::Th(k, vec![a.clone(), b.clone()]));
                l2.push(P::Th(k, vec![b.clone(), a.clone()]));
            }
        }
    }
    for (i, a) in inner.iter().enumerate() {
        for b in inner.iter().skip(i % 7).step_by(11) {
            for k in 1..=2u8 {
                l2.push(P::Th(k, vec![a.clone(), b.clone()]));
            }
            l2.push(P::Th(2, vec![a.clone(), b.clone(), P::K(2)]));
            l2.push(P::Th(3, vec![a.clone(), b.clone(), P::K(2)]));
        }
    }
    // hand-picked shapes that exercise flattening / constant folding / repeated atoms
    let hand = vec![
        P::Th(2, vec![P::U, P::Th(2, vec![P::K(0), P::K(1)])]),
        P::Th(2, vec![P::O(20), P::Th(2, vec![P::K(0), P::K(1)])]),
        P::Th(2, vec![P::K(0), P::Th(1, vec![P::K(1), P::T])]),
        P::Th(2, vec![P::K(0), P::K(1), P::Th(1, vec![P::U, P::T])]),
        P::Th(1, vec![P::Th(1, vec![P::U, P::T])]),
        P::Th(2, vec![P::K(0), P::Th(1, vec![P::K(0), P::Th(2, vec![P::K(1), P::K(2)])])]),
        P::Th(1, vec![P::Th(1, vec![P::K(0), P::K(1)]), P::Th(1, vec![P::K(2), P::H(0)])]),
        P::Th(2, vec![P::Th(2, vec![P::K(0), P::K(1)]), P::Th(2, vec![P::K(2), P::H(0)])]),
        P::Th(2, vec![P::Th(1, vec![P::A(100), P::K(0)]), P::Th(1, vec![P::A(500_000_100), P::K(1)])]),
        P::Th(2, vec![P::O(10), P::O(0x40_0000 | 10)]),
        P::Th(2, vec![P::O(0x40_0000 | 10), P::O(10)]),
        P::Th(2, vec![P::O(10), P::A(500_000_100)]),
        P::Th(2, vec![P::A(100), P::A(500_000_100), P::K(0)]),
        P::Th(3, vec![P::T, P::T, P::K(0)]),
        P::Th(1, vec![P::U, P::U, P::K(0)]),
    ];
    let cap1 = if tier == "thorough" { 3000 } else { 250 };
    let cap2 = if tier == "thorough" { 3000 } else { 250 };
    let s13 = if tier == "thorough" { seed + 13 } else { 13 };
    let s29 = if tier == "thorough" { seed + 29 } else { 29 };
    l1_3.sort_by_key(|p| hash_str(&p.show(), s13));
    l1_3.truncate(cap1);
    l2.sort_by_key(|p| hash_str(&p.show(), s29));
    l2.dedup();
    l2.truncate(cap2);
    let mut all = leaves;
    all.extend(hand);
    all.extend(l1);
    all.extend(l1_3);
    all.extend(l2);
    all.retain(|p| p.nodes() <= 9);
    all
}

pub fn generate(fix: &Fix, tier: &str, seed: u64, out_dir: &str) {
    let pols = enumerate(tier, seed);
    let mut src = String::from("// generated by the native generator from /repo's current tree - do not edit\n#![allow(clippy::all)]\nuse crate::c18::{Entail, Filter, PolCase};\n");
    let mut n_cases = 0;
    let mut samples = vec![];
    let mut native_findings: Vec<String> = vec![];
    for (ci, p) in pols.iter().enumerate() {
        let sem = p.to_sem(fix);
        let mut atoms: Vec<P> = vec![];
        p.leaves(&mut atoms);
        // extra atoms that only results may mention are appended by sem_to_ap (should not happen)
        let mut ap = vec![];
        p_to_ap(p, &mut atoms, &mut ap);
        let n0 = atoms.len();
        if n0 > 12 {
            continue;
        }
        let mut conv = |s: &Semantic<Pk>, atoms: &mut Vec<P>| {
            let mut o = vec![];
            sem_to_ap(fix, s, atoms, &mut o);
            o
        };
        let norm = conv(&sem.clone().normalized(), &mut atoms);
        let sorted = conv(&sem.clone().sorted(), &mut atoms);
        // filters
        let mut filters = String::new();
        let mut nf = 0;
        let mut ages: Vec<u32> = vec![];
        let mut times: Vec<u32> = vec![];
        for a in &atoms.clone() {
            match a {
                P::O(v) => {
                    for x in [*v, v - 1, v + 1, v ^ 0x40_0000] {
                        if x & 0xffff != 0 && !ages.contains(&x) {
                            ages.push(x)
                        }
                    }
                }
                P::A(v) => {
                    for x in [*v, v - 1, v + 1, if *v < 500_000_000 { 500_000_000 + v } else { v - 500_000_000 }] {
                        if x >= 1 && !times.contains(&x) {
                            times.push(x)
                        }
                    }
                }
                _ => {}
            }
        }
        for a in &ages {
            let age = match Sequence::from_consensus(*a).to_relative_lock_time() {
                Some(x) => x,
                None => continue,
            };
            let _: relative::LockTime = age;
            let res = conv(&sem.clone().at_age(age), &mut atoms);
            let exp_p = subst(p, &|l| match l {
                P::O(t) => rel_implied(*t, *a),
                _ => true,
            });
            let mut exp = vec![];
            p_to_ap(&exp_p, &mut atoms, &mut exp);
            let _ = write!(filters, "Filter{{kind:0,value:{},result:", a);
            emit_ap(&mut filters, &res);
            filters.push_str(",expected:");
            emit_ap(&mut filters, &exp);
            filters.push_str("},");
            nf += 1;
        }
        for t in &times {
            let lt = absolute::LockTime::from_consensus(*t);
            let res = conv(&sem.clone().at_lock_time(lt), &mut atoms);
            let exp_p = subst(p, &|l| match l {
                P::A(v) => abs_implied(*v, *t),
                _ => true,
            });
            let mut exp = vec![];
            p_to_ap(&exp_p, &mut atoms, &mut exp);
            let _ = write!(filters, "Filter{{kind:1,value:{},result:", t);
            emit_ap(&mut filters, &res);
            filters.push_str(",expected:");
            emit_ap(&mut filters, &exp);
            filters.push_str("},");
            nf += 1;
        }
        // entailment against a few other policies over the same atoms
        let mut qs: Vec<P> = atoms.iter().take(n0).cloned().collect();
        qs.push(P::T);
        qs.push(P::U);
        if let P::Th(k, v) = p {
            for k2 in 1..=v.len() as u8 {
                if k2 != *k {
                    qs.push(P::Th(k2, v.clone()));
                }
            }
            for c in v {
                qs.push(c.clone());
            }
        }
        qs.dedup();
        let mut entails = String::new();
        let mut ne = 0;
        for q in qs.iter().take(8) {
            for (pp, qq) in [(p, q), (q, p)] {
                let ans = pp.to_sem(fix).entails(qq.to_sem(fix));
                let mut pa = vec![];
                p_to_ap(pp, &mut atoms, &mut pa);
                let mut qa = vec![];
                p_to_ap(qq, &mut atoms, &mut qa);
                let na = atoms.len();
                let mut witness = 0xffffu16;
                if ans == Some(false) {
                    for m in 0..(1u32 << na) {
                        if eval_ap(&pa, m as u16) && !eval_ap(&qa, m as u16) {
                            witness = m as u16;
                            break;
                        }
                    }
                }
                let _ = write!(entails, "Entail{{answer:{},witness:{},p:", match ans { Some(true) => 1, Some(false) => 0, None => 2 }, witness);
                emit_ap(&mut entails, &pa);
                entails.push_str(",q:");
                emit_ap(&mut entails, &qa);
                entails.push_str("},");
                ne += 1;
            }
        }
        // minimum number of keys (only claimed for policies without repeated keys)
        let distinct_keys = p.key_occurrences() == atoms.iter().take(n0).filter(|a| matches!(a, P::K(_))).count();
        let mk = sem.minimum_n_keys();
        let mut keymask = 0u16;
        for (i, a) in atoms.iter().enumerate() {
            if matches!(a, P::K(_)) {
                keymask |= 1 << i;
            }
        }
        let na = atoms.len();
        let mut mk_witness = 0xffffu16;
        if let Some(m) = mk {
            for w in 0..(1u32 << na) {
                if eval_ap(&ap, w as u16) && ((w as u16) & keymask).count_ones() as usize == m {
                    mk_witness = w as u16;
                    break;
                }
            }
        }
        // concrete language: lift and the mixed-time-lock check
        let (mut lifted, mut has_conc, mut tl_err, mut tl_witness, mut lift_err) = (vec![], false, false, 0xffffu16, false);
        let mut tl_dead_witness = 0xffffu16;
        if let Some(c) = p.to_concrete(fix) {
            has_conc = true;
            tl_err = c.check_timelocks().is_err();
            match c.lift() {
                Ok(l) => lifted = conv(&l, &mut atoms),
                Err(_) => lift_err = true,
            }
            if tl_err {
                let (mut ah, mut at, mut oh, mut ot) = (0u16, 0u16, 0u16, 0u16);
                for (i, a) in atoms.iter().enumerate() {
                    match a {
                        P::A(v) if *v < 500_000_000 => ah |= 1 << i,
                        P::A(_) => at |= 1 << i,
                        P::O(v) if v & 0x40_0000 == 0 => oh |= 1 << i,
                        P::O(_) => ot |= 1 << i,
                        _ => {}
                    }
                }
                // a "path" picks exactly k children of every threshold on the way down
                let mut lookup = atoms.clone();
                for w in paths(p, &mut lookup, false) {
                    let conflict = (w & ah != 0 && w & at != 0) || (w & oh != 0 && w & ot != 0);
                    if conflict {
                        tl_witness = w;
                        break;
                    }
                }
                // the same ignoring satisfiability (an UNSATISFIABLE child counts as an empty path)
                for w in paths(p, &mut lookup, true) {
                    if (w & ah != 0 && w & at != 0) || (w & oh != 0 && w & ot != 0) {
                        tl_dead_witness = w;
                        break;
                    }
                }
            } else {
                let (mut ah, mut at, mut oh, mut ot) = (0u16, 0u16, 0u16, 0u16);
                for (i, a) in atoms.iter().enumerate() {
                    match a {
                        P::A(v) if *v < 500_000_000 => ah |= 1 << i,
                        P::A(_) => at |= 1 << i,
                        P::O(v) if v & 0x40_0000 == 0 => oh |= 1 << i,
                        P::O(_) => ot |= 1 << i,
                        _ => {}
                    }
                }
                let mut lookup = atoms.clone();
                for w in paths(p, &mut lookup, false) {
                    if (w & ah != 0 && w & at != 0) || (w & oh != 0 && w & ot != 0) {
                        native_findings.push(format!("check_timelocks() is silent on {} although the path with atoms {:#b} needs a height- and a time-based lock of one kind", p.show(), w));
                        break;
                    }
                }
            }
        }
        if atoms.len() > 12 {
            native_findings.push(format!("{}: a transformation introduced atoms not in the input", p.show()));
            continue;
        }
        // atom kinds: 0 key, 1 hash, 2 after-height, 3 after-time, 4 older-height, 5 older-time
        let kinds: Vec<u8> = atoms
            .iter()
            .map(|a| match a {
                P::K(_) => 0,
                P::H(_) => 1,
                P::A(v) if *v < 500_000_000 => 2,
                P::A(_) => 3,
                P::O(v) if v & 0x40_0000 == 0 => 4,
                _ => 5,
            })
            .collect();
        let mut kinds12 = [0u8; 12];
        for (i, k) in kinds.iter().enumerate() {
            kinds12[i] = *k;
        }
        let _ = write!(src, "// {}\npub static PC{ci}: PolCase = PolCase{{name:{:?},natoms:{},kinds:{:?},keymask:{},p:", p.show(), p.show(), atoms.len(), kinds12, keymask);
        emit_ap(&mut src, &ap);
        src.push_str(",norm:");
        emit_ap(&mut src, &norm);
        src.push_str(",sorted:");
        emit_ap(&mut src, &sorted);
        let _ = write!(src, ",filters:&[{}],entails:&[{}],distinct_keys:{},min_keys:{},min_witness:{},has_concrete:{},lift_refused:{},lifted:", filters, entails, distinct_keys, mk.map(|m| m as i32).unwrap_or(-1), mk_witness, has_conc, lift_err);
        emit_ap(&mut src, &lifted);
        let _ = writeln!(src, ",timelock_err:{},timelock_witness:{},timelock_dead_witness:{}}};", tl_err, tl_witness, tl_dead_witness);
        let _ = (nf, ne);
        n_cases += 1;
        if samples.len() < 12 && ci % (pols.len() / 12 + 1) == 0 {
            samples.push(format!("{{\"case\": \"PC{}\", \"policy\": \"{}\", \"atoms\": {}, \"filters\": {}, \"entailment_queries\": {}}}", ci, json_escape(&p.show()), atoms.len(), nf, ne));
        }
    }
    // wrappers
    let ids: Vec<usize> = (0..pols.len()).filter(|i| src.contains(&format!("pub static PC{i}:"))).collect();
    for (bi, chunk) in ids.chunks(12).enumerate() {
        let _ = writeln!(src, "// @h c18_tv_{bi:03} kind=V programs={} timeout=1500 mem=4 covers=any", chunk.len());
        let _ = writeln!(src, "#[cfg_attr(kani, kani::proof)]\n#[cfg_attr(kani, kani::unwind(36))]\npub fn c18_tv_{bi:03}() {{");
        for i in chunk {
            let _ = writeln!(src, "    crate::c18::tv(&PC{i});");
        }
        let _ = writeln!(src, "}}");
    }
    write_out(out_dir, "c18.rs", &src);
    let info = format!(
        "{{\"programs\": {}, \"samples\": [{}], \"native_findings\": [{}]}}",
        n_cases,
        samples.join(","),
        native_findings.iter().map(|f| format!("{{\"prop\": \"C18\", \"what\": \"{}\"}}", json_escape(f))).collect::<Vec<_>>().join(",")
    );
    write_out(out_dir, "c18_info.json", &info);
    // make sure generated/mod.rs lists this module
    let modp = format!("{out_dir}/mod.rs");
    let cur = std::fs::read_to_string(&modp).unwrap_or_default();
    if !cur.contains("pub mod c18;") {
        std::fs::write(&modp, format!("{}pub mod c18;\n", if cur.is_empty() { "// generated - do not edit\n".to_string() } else { cur })).unwrap();
    }
    println!("generated {} policy cases", n_cases);
}
