//! C13 generator: the REAL interpreter (`Interpreter::from_txdata` + `iter_custom`) runs natively on
//! every library satisfaction of a shape and on single/double-element mutations of it (drop,
//! duplicate, swap, replace by empty / 1 / junk / another valid signature / an invalid signature),
//! under a representative (nLockTime, nSequence) of every lock class of the shape.  The verdicts
//! and the reported constraints are emitted as a constant table; the Kani harness `w::c13`
//! decides, for ALL lock values of the class, that the reference Script machine agrees.

use std::fmt::Write as _;

use miniscript::bitcoin::script::{Builder, PushBytesBuf};
use miniscript::bitcoin::secp256k1::{Message, Secp256k1, SecretKey};
use miniscript::bitcoin::{self, absolute, Sequence, Witness};
use miniscript::interpreter::{Interpreter, KeySigPair, SatisfiedConstraint};
use miniscript::{Descriptor, Miniscript};

use super::{hash_str, CtxInfo, El2, Fix, GWit, Pk};
use crate::vm::{self, tag};

#[derive(Clone, Debug)]
pub struct GICase {
    pub cand: usize,
    pub lv: usize,
    pub accept: bool,
    pub sigs: u8,
    pub pres: u8,
    pub absm: u8,
    pub relm: u8,
    pub err: String,
}

#[derive(Clone, Debug, Default)]
pub struct GITab {
    pub lockvecs: Vec<(u8, u8, u8)>,
    /// representative (nLockTime, nSequence) per class
    pub reps: Vec<(u32, u32)>,
    /// (abs, rel) the library reported for the unmutated library satisfactions (first nbase candidates)
    pub base_locks: Vec<(u32, u32)>,
    pub cands: Vec<Vec<El2>>,
    /// for the evidence: how each candidate was derived
    pub how: Vec<String>,
    pub cases: Vec<GICase>,
}

pub struct SigFix {
    pub ecdsa_ok: Vec<Vec<u8>>,
    pub ecdsa_bad: Vec<Vec<u8>>,
    pub schnorr_ok: Vec<Vec<u8>>,
    pub schnorr_bad: Vec<Vec<u8>>,
}

impl SigFix {
    pub fn new() -> SigFix {
        let secp = Secp256k1::new();
        let msg = Message::from_digest([0x42; 32]);
        let mk = |b: u8| {
            let sk = SecretKey::from_slice(&[b; 32]).unwrap();
            let mut v = secp.sign_ecdsa(&msg, &sk).serialize_der().to_vec();
            v.push(1); // SIGHASH_ALL
            v
        };
        SigFix {
            ecdsa_ok: (0..4u8).map(|k| mk(100 + k)).collect(),
            ecdsa_bad: (0..4u8).map(|k| mk(150 + k)).collect(),
            schnorr_ok: (0..4u8).map(|k| vec![0x40 + k; 64]).collect(),
            schnorr_bad: (0..4u8).map(|k| vec![0x60 + k; 64]).collect(),
        }
    }
}

fn el_bytes(fix: &Fix, sf: &SigFix, ctx: u8, e: &El2) -> Vec<u8> {
    let k = e.1 as usize;
    match e.0 {
        tag::EMPTY => vec![],
        tag::ONE => vec![1],
        tag::NUM => bitcoin::script::Builder::new().push_int(e.2).into_script().as_bytes()[1..].to_vec(),
        tag::SIG => match (ctx == vm::TAP, e.2 == 1) {
            (false, true) => sf.ecdsa_ok[k].clone(),
            (false, false) => sf.ecdsa_bad[k].clone(),
            (true, true) => sf.schnorr_ok[k].clone(),
            (true, false) => sf.schnorr_bad[k].clone(),
        },
        tag::KEY => {
            if ctx == vm::TAP {
                fix.pks[k].to_bytes()[1..].to_vec()
            } else {
                fix.pks[k].to_bytes()
            }
        }
        tag::PRE => fix.pre[k].to_vec(),
        tag::ZERO32 => vec![0u8; 32],
        _ => vec![0x50 + e.1; e.2.max(2) as usize],
    }
}

fn push_el(b: Builder, bytes: &[u8]) -> Builder {
    if bytes == [1] {
        b.push_int(1)
    } else {
        b.push_slice(PushBytesBuf::try_from(bytes.to_vec()).unwrap())
    }
}

/// Run the real interpreter on one candidate.
#[allow(clippy::too_many_arguments)]
fn interp<Ctx: CtxInfo>(fix: &Fix, sf: &SigFix, ctx: u8, desc: &Descriptor<Pk>, ms: &Miniscript<Pk, Ctx>, abs: &[u32], rel: &[u32], cand: &[El2], nlt: u32, nseq: u32) -> (bool, u8, u8, u8, u8, String) {
    let script = ms.encode();
    let spk = desc.script_pubkey();
    let els: Vec<Vec<u8>> = cand.iter().map(|e| el_bytes(fix, sf, ctx, e)).collect();
    let mut script_sig = bitcoin::ScriptBuf::new();
    let mut wit = Witness::new();
    match ctx {
        vm::SEGWITV0 => {
            for e in &els {
                wit.push(e);
            }
            wit.push(script.as_bytes());
        }
        vm::TAP => {
            for e in &els {
                wit.push(e);
            }
            wit.push(script.as_bytes());
            let cb = match desc {
                Descriptor::Tr(tr) => tr.spend_info().leaves().next().map(|l| l.control_block().serialize()),
                _ => None,
            };
            match cb {
                Some(cb) => wit.push(cb),
                None => return (false, 0, 0, 0, 0, "no control block".into()),
            }
        }
        vm::LEGACY => {
            let mut b = Builder::new();
            for e in &els {
                b = push_el(b, e);
            }
            b = b.push_slice(PushBytesBuf::try_from(script.to_bytes()).unwrap());
            script_sig = b.into_script();
        }
        _ => {
            let mut b = Builder::new();
            for e in &els {
                b = push_el(b, e);
            }
            script_sig = b.into_script();
        }
    }
    let it = match Interpreter::from_txdata(&spk, &script_sig, &wit, Sequence::from_consensus(nseq), absolute::LockTime::from_consensus(nlt)) {
        Ok(i) => i,
        Err(e) => return (false, 0, 0, 0, 0, format!("from_txdata: {e}")),
    };
    let pks = fix.pks.clone();
    let eok = sf.ecdsa_ok.clone();
    let sok = sf.schnorr_ok.clone();
    let key_of = |pk: &bitcoin::PublicKey| pks.iter().position(|p| p == pk);
    let xkey_of = |xpk: &bitcoin::key::XOnlyPublicKey| pks.iter().position(|p| bitcoin::key::XOnlyPublicKey::from(p.inner) == *xpk);
    let verify = |ksp: &KeySigPair| -> bool {
        match ksp {
            KeySigPair::Ecdsa(pk, sig) => match key_of(pk) {
                Some(k) => sig.to_vec() == eok[k],
                None => false,
            },
            KeySigPair::Schnorr(xpk, sig) => match xkey_of(xpk) {
                Some(k) => sig.to_vec() == sok[k],
                None => false,
            },
        }
    };
    let (mut sigs, mut pres, mut absm, mut relm) = (0u8, 0u8, 0u8, 0u8);
    for c in it.iter_custom(Box::new(verify)) {
        match c {
            Err(e) => return (false, sigs, pres, absm, relm, format!("{e}")),
            Ok(SatisfiedConstraint::PublicKey { key_sig }) | Ok(SatisfiedConstraint::PublicKeyHash { key_sig, .. }) => {
                let k = match key_sig {
                    KeySigPair::Ecdsa(pk, _) => key_of(&pk),
                    KeySigPair::Schnorr(x, _) => xkey_of(&x),
                };
                match k {
                    Some(k) => sigs |= 1 << k,
                    None => return (false, sigs, pres, absm, relm, "interpreter reported an unknown key".into()),
                }
            }
            Ok(SatisfiedConstraint::HashLock { preimage, .. }) => match fix.pre.iter().position(|p| *p == preimage) {
                Some(j) => pres |= 1 << j,
                None => return (false, sigs, pres, absm, relm, "interpreter reported an unknown preimage".into()),
            },
            Ok(SatisfiedConstraint::AbsoluteTimelock { n }) => {
                for (i, a) in abs.iter().enumerate() {
                    if *a == n.to_consensus_u32() {
                        absm |= 1 << i;
                    }
                }
            }
            Ok(SatisfiedConstraint::RelativeTimelock { n }) => {
                for (i, a) in rel.iter().enumerate() {
                    if *a == n.to_consensus_u32() {
                        relm |= 1 << i;
                    }
                }
            }
        }
    }
    (true, sigs, pres, absm, relm, String::new())
}

/// Classes of (nLockTime, nSequence) under the interpreter's own predicates, with representatives.
/// Boundary values of every lock atom, both units, final / disabled sequences.
fn scenarios(abs: &[u32], rel: &[u32]) -> (Vec<(u8, u8, u8)>, Vec<(u32, u32)>) {
    let mut nlts = vec![0u32, 499_999_999, 500_000_000, u32::MAX];
    for t in abs {
        nlts.extend([t.wrapping_sub(1), *t, t.wrapping_add(1)]);
    }
    let mut seqs = vec![0xffff_fffeu32, 0xffff_ffff, 0, 0x0040_0000, 0x8000_0000];
    for t in rel {
        seqs.extend([t.wrapping_sub(1), *t, t.wrapping_add(1), t | 0x8000_0000, t ^ 0x0040_0000]);
    }
    let (mut vecs, mut reps) = (vec![], vec![]);
    for &s in &seqs {
        for &l in &nlts {
            let mut a = 0u8;
            for (i, t) in abs.iter().enumerate() {
                if crate::c13::iabs(*t, l) {
                    a |= 1 << i;
                }
            }
            let mut o = 0u8;
            for (i, t) in rel.iter().enumerate() {
                if crate::c13::irel(*t, s) {
                    o |= 1 << i;
                }
            }
            let f = if s == 0xffff_ffff { 1u8 } else { 0 };
            if !vecs.contains(&(a, o, f)) {
                vecs.push((a, o, f));
                reps.push((l, s));
            }
        }
    }
    (vecs, reps)
}

/// Candidate witnesses: library satisfactions and their mutations.  Mutations are taken in
/// priority order, round-robin over the library satisfactions, until the cap is reached:
/// (1) one element replaced by empty, (2) by a valid signature of some key, (3) dropped,
/// (4) neighbours swapped, (5) replaced by 1, (6) by an invalid signature, (7) duplicated,
/// (8) replaced by junk / 32 zero bytes, (9) one more element on top / at the bottom; then
/// hash-selected double mutations.
fn candidates(bases: &[&GWit], nkeys: usize, cap: usize, seed: u64, name: &str) -> (Vec<Vec<El2>>, Vec<String>) {
    let mut cands: Vec<Vec<El2>> = vec![];
    let mut how: Vec<String> = vec![];
    let add = |c: Vec<El2>, h: String, cands: &mut Vec<Vec<El2>>, how: &mut Vec<String>| {
        if c.len() <= crate::shape::MAXW && !cands.contains(&c) {
            cands.push(c);
            how.push(h);
        }
    };
    for (bi, b) in bases.iter().enumerate() {
        add(b.els.clone(), format!("lib{bi}"), &mut cands, &mut how);
    }
    let nbase = cands.len();
    // single mutations of one witness, grouped by priority class
    let single = |w: &Vec<El2>, nkeys: usize| -> Vec<Vec<(Vec<El2>, String)>> {
        let mut cls: Vec<Vec<(Vec<El2>, String)>> = vec![vec![]; 9];
        let rep = |w: &Vec<El2>, i: usize, r: El2| -> Option<(Vec<El2>, String)> {
            if r == w[i] {
                return None;
            }
            let mut d = w.clone();
            d[i] = r;
            Some((d, format!("rep{i}:{}/{}/{}", r.0, r.1, r.2)))
        };
        for i in 0..w.len() {
            cls[0].extend(rep(w, i, El2(tag::EMPTY, 0, 0)));
            for k in 0..nkeys as u8 {
                cls[1].extend(rep(w, i, El2(tag::SIG, k, 1)));
            }
            let mut d = w.clone();
            d.remove(i);
            cls[2].push((d, format!("drop{i}")));
            if i + 1 < w.len() {
                let mut d = w.clone();
                d.swap(i, i + 1);
                cls[3].push((d, format!("swap{i}")));
            }
            cls[4].extend(rep(w, i, El2(tag::ONE, 0, 0)));
            if w[i].0 == tag::SIG {
                cls[5].extend(rep(w, i, El2(tag::SIG, w[i].1, 0)));
            }
            let mut d = w.clone();
            d.insert(i, w[i]);
            cls[6].push((d, format!("dup{i}")));
            for r in [El2(tag::JUNK, 1, 32), El2(tag::JUNK, 2, 20), El2(tag::ZERO32, 0, 0)] {
                cls[7].extend(rep(w, i, r));
            }
        }
        for r in [El2(tag::EMPTY, 0, 0), El2(tag::ONE, 0, 0), El2(tag::JUNK, 1, 32)] {
            let mut d = w.clone();
            d.push(r);
            cls[8].push((d, format!("top:{}", r.0)));
            let mut d = w.clone();
            d.insert(0, r);
            cls[8].push((d, format!("bottom:{}", r.0)));
        }
        cls
    };
    let per_base: Vec<Vec<Vec<(Vec<El2>, String)>>> = (0..nbase).map(|bi| single(&cands[bi].clone(), nkeys)).collect();
    // priority classes outermost, bases round-robin, positions hash-ordered inside a class
    'fill: for c in 0..9 {
        let mut lists: Vec<Vec<(Vec<El2>, String)>> = per_base.iter().map(|p| p[c].clone()).collect();
        for l in lists.iter_mut() {
            l.sort_by_key(|(m, _)| hash_str(&format!("{name}{m:?}"), seed + 3));
        }
        let longest = lists.iter().map(|l| l.len()).max().unwrap_or(0);
        for k in 0..longest {
            for (bi, l) in lists.iter().enumerate() {
                if let Some((m, h)) = l.get(k) {
                    if cands.len() >= cap {
                        break 'fill;
                    }
                    add(m.clone(), format!("lib{bi}+{h}"), &mut cands, &mut how);
                }
            }
        }
    }
    // double mutations: a hash-selected subset
    if cands.len() < cap {
        let mut muts: Vec<(Vec<El2>, String)> = vec![];
        for (bi, p) in per_base.iter().enumerate() {
            for (m, h) in p.iter().flatten().filter(|(m, _)| hash_str(&format!("{name}{m:?}"), seed) % 5 == 0) {
                for (m2, h2) in single(m, nkeys).into_iter().flatten().filter(|(m2, _)| hash_str(&format!("{name}{m2:?}x"), seed) % 7 == 0) {
                    muts.push((m2, format!("lib{bi}+{h}+{h2}")));
                }
            }
        }
        muts.sort_by_key(|(m, _)| hash_str(&format!("{name}{m:?}"), seed + 5));
        for (m, h) in muts {
            if cands.len() >= cap {
                break;
            }
            add(m, h, &mut cands, &mut how);
        }
    }
    (cands, how)
}

#[allow(clippy::too_many_arguments)]
pub fn table<Ctx: CtxInfo>(fix: &Fix, ms: &Miniscript<Pk, Ctx>, desc: &Descriptor<Pk>, name: &str, nkeys: usize, abs: &[u32], rel: &[u32], wits: &[GWit], rows: &[super::GRow], cap: usize, seed: u64) -> GITab {
    let sf = SigFix::new();
    let ctx = Ctx::ID;
    // library satisfactions (both modes), in table order
    let mut base_idx: Vec<usize> = vec![];
    for r in rows {
        for b in 0..2 {
            if wits[r.w[b]].kind == 0 && !base_idx.contains(&r.w[b]) {
                base_idx.push(r.w[b]);
            }
        }
    }
    let bases: Vec<&GWit> = base_idx.iter().map(|i| &wits[*i]).collect();
    let (cands, how) = candidates(&bases, nkeys, cap, seed, name);
    let (lockvecs, reps) = scenarios(abs, rel);
    // candidates are de-duplicated by content: the first library satisfaction with that content gives the reported locks
    let mut base_locks = vec![];
    for c in &cands {
        if let Some(b) = bases.iter().find(|b| b.els == *c) {
            base_locks.push((b.abs, b.rel));
        } else {
            break;
        }
    }
    let mut cases = vec![];
    for (ci, c) in cands.iter().enumerate() {
        for (lv, rep) in reps.iter().enumerate() {
            let (accept, sigs, pres, absm, relm, err) = interp::<Ctx>(fix, &sf, ctx, desc, ms, abs, rel, c, rep.0, rep.1);
            cases.push(GICase { cand: ci, lv, accept, sigs, pres, absm, relm, err });
        }
    }
    GITab { lockvecs, reps, base_locks, cands, how, cases }
}

pub fn emit(out: &mut String, ident: &str, shape_ident: &str, t: &GITab) {
    let _ = write!(out, "static {ident}_CANDS: [Wit; {}] = [", t.cands.len());
    for c in &t.cands {
        let mut els = String::new();
        for i in 0..crate::shape::MAXW {
            if i < c.len() {
                let _ = write!(els, "E({},{},{}),", c[i].0, c[i].1, c[i].2);
            } else {
                els.push_str("Z,");
            }
        }
        let ci = t.cands.iter().position(|x| x == c).unwrap();
        let (abs, rel, roles) = match t.base_locks.get(ci) {
            Some((a, r)) => (*a, *r, 1),
            None => (0, 0, 0),
        };
        let _ = write!(out, "Wit{{kind:0,n:{},els:[{}],has_sig:false,abs:{abs},rel:{rel},roles:{roles}}},", c.len(), els);
    }
    let _ = writeln!(out, "];");
    let _ = write!(out, "static {ident}_CASES: [ICase; {}] = [", t.cases.len());
    for c in &t.cases {
        let _ = write!(out, "ICase{{cand:{},lv:{},accept:{},sigs:{},pres:{},absm:{},relm:{}}},", c.cand, c.lv, c.accept, c.sigs, c.pres, c.absm, c.relm);
    }
    let _ = writeln!(out, "];");
    let _ = writeln!(out, "pub static {ident}: ITab = ITab{{sh:&super::shapes::{shape_ident},lockvecs:&{:?},cands:&{ident}_CANDS,cases:&{ident}_CASES}};", t.lockvecs);
}

pub const PRELUDE: &str = "// generated by the native generator from /repo's current tree - do not edit\n#![allow(non_upper_case_globals, unused_imports, clippy::all)]\nuse crate::shape::{ICase, ITab, Wit};\nuse crate::vm::El;\nconst fn E(t: u8, a: u8, n: i64) -> El { El { t, a, n } }\nconst Z: El = El { t: 0, a: 0, n: 0 };\n";

/// Native replay support: run the REAL interpreter again for one candidate at the lock values of
/// a solver model (the shape is re-parsed from its printed form).
pub fn native_case(sh: &crate::shape::Shape, w: &crate::shape::Wit, nlt: u32, nseq: u32, table: &crate::shape::ICase) -> crate::shape::ICase {
    use std::str::FromStr;
    let fix = Fix::new();
    let sf = SigFix::new();
    let cand: Vec<El2> = w.els[..w.n as usize].iter().map(|e| El2(e.t, e.a, e.n)).collect();
    let abs = &sh.abs[..sh.nabs as usize];
    let rel = &sh.rel[..sh.nrel as usize];
    fn go<Ctx: CtxInfo>(fix: &Fix, sf: &SigFix, sh: &crate::shape::Shape, abs: &[u32], rel: &[u32], cand: &[El2], nlt: u32, nseq: u32) -> Option<(bool, u8, u8, u8, u8, String)> {
        let ms = Miniscript::<Pk, Ctx>::from_str_insane(sh.name).ok()?;
        let desc = Ctx::descriptor(ms.clone(), fix)?;
        Some(interp::<Ctx>(fix, sf, Ctx::ID, &desc, &ms, abs, rel, cand, nlt, nseq))
    }
    let r = match sh.ctx {
        vm::SEGWITV0 => go::<miniscript::Segwitv0>(&fix, &sf, sh, abs, rel, &cand, nlt, nseq),
        vm::TAP => go::<miniscript::Tap>(&fix, &sf, sh, abs, rel, &cand, nlt, nseq),
        vm::LEGACY => go::<miniscript::Legacy>(&fix, &sf, sh, abs, rel, &cand, nlt, nseq),
        _ => go::<miniscript::BareCtx>(&fix, &sf, sh, abs, rel, &cand, nlt, nseq),
    };
    let _ = Pk::from_str;
    match r {
        Some((accept, sigs, pres, absm, relm, err)) => {
            eprintln!("    real interpreter at nLockTime={nlt} nSequence={nseq:#x} on {:?}: accept={accept} sigs={sigs:#b} pres={pres:#b} abs={absm:#b} rel={relm:#b} {err}", cand);
            crate::shape::ICase { cand: table.cand, lv: table.lv, accept, sigs, pres, absm, relm }
        }
        None => {
            eprintln!("    (shape could not be re-parsed for the native interpreter run; table entry used)");
            *table
        }
    }
}
