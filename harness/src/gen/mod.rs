//! Native generator (never compiled under Kani): runs the REAL library from the current
//! /repo tree on enumerated shapes and emits the artefacts (script, type, figures, lifted
//! policy, witness tables) as constants for the V/W harnesses (DESIGN §2.5).

use std::collections::{BTreeMap, HashSet};
use std::fmt::Write as _;
use std::str::FromStr;
use std::sync::Arc;

use miniscript::bitcoin::hashes::{hash160, ripemd160, sha256, Hash};
use miniscript::bitcoin::opcodes::all as opc;
use miniscript::bitcoin::script::Instruction;
use miniscript::bitcoin::secp256k1::{Secp256k1, SecretKey};
use miniscript::bitcoin::taproot::TapLeafHash;
use miniscript::bitcoin::{self, absolute, relative, Sequence};
use miniscript::miniscript::satisfy::{Placeholder, Satisfaction, Witness};
use miniscript::Satisfier;
use miniscript::plan::{AssetProvider, Assets};
use miniscript::policy::{Liftable, Semantic};
use miniscript::{
    hash256, AbsLockTime, BareCtx, DefiniteDescriptorKey, Descriptor, DescriptorPublicKey, Legacy, Miniscript, RelLockTime, ScriptContext, Segwitv0,
    Tap, Terminal, Threshold,
};

use crate::spec;
use crate::vm::{self, El, Op};

pub mod c08;
pub mod c12;
pub mod c13;
pub mod c18;

pub type Pk = DefiniteDescriptorKey;

// --------------------------------------------------------------------------
// fixtures: real keys (mixed parity), real hashes

pub struct Fix {
    pub pks: Vec<bitcoin::PublicKey>,
    pub dkeys: Vec<Pk>,
    pub pre: Vec<[u8; 32]>,
    pub sha: Vec<sha256::Hash>,
    pub h256: Vec<hash256::Hash>,
    pub rip: Vec<ripemd160::Hash>,
    pub h160: Vec<hash160::Hash>,
    /// an extra key never available to the spender (taproot internal key)
    pub internal: Pk,
}

pub const NKEYS: usize = 4;

impl Fix {
    pub fn new() -> Fix {
        let secp = Secp256k1::new();
        let mut cands = vec![];
        for i in 1u8..60 {
            let sk = SecretKey::from_slice(&[i; 32]).unwrap();
            let pk = bitcoin::PublicKey::new(sk.public_key(&secp));
            cands.push(pk);
        }
        // choose 4 keys with mixed parity such that sorting by 33-byte encoding differs from
        // sorting by x-only encoding (needed to see sortedmulti / sortedmulti_a ordering slips)
        let mut pks: Vec<bitcoin::PublicKey> = vec![];
        'outer: for a in 0..cands.len() {
            for b in a + 1..cands.len() {
                let (ka, kb) = (cands[a], cands[b]);
                let (sa, sb) = (ka.to_bytes(), kb.to_bytes());
                // ka even (02), kb odd (03), x(kb) < x(ka)
                if sa[0] == 2 && sb[0] == 3 && sb[1..] < sa[1..] {
                    pks = vec![ka, kb];
                    break 'outer;
                }
            }
        }
        assert!(pks.len() == 2, "no mixed-parity key pair found");
        for c in &cands {
            if pks.len() < NKEYS + 1 && !pks.contains(c) {
                pks.push(*c);
            }
        }
        let internal = Pk::from_str(&pks[NKEYS].to_string()).unwrap();
        pks.truncate(NKEYS);
        let dkeys = pks.iter().map(|k| Pk::from_str(&k.to_string()).unwrap()).collect();
        let pre: Vec<[u8; 32]> = (0..4u8).map(|j| [0x10 + j; 32]).collect();
        Fix {
            sha: pre.iter().map(|p| sha256::Hash::hash(p)).collect(),
            h256: pre.iter().map(|p| hash256::Hash::hash(p)).collect(),
            rip: pre.iter().map(|p| ripemd160::Hash::hash(p)).collect(),
            h160: pre.iter().map(|p| hash160::Hash::hash(p)).collect(),
            pks,
            dkeys,
            pre,
            internal,
        }
    }
    pub fn key_id(&self, k: &Pk) -> Option<u8> { self.dkeys.iter().position(|d| d == k).map(|i| i as u8) }
}

// --------------------------------------------------------------------------
// abstract terms

#[derive(Clone, Debug, PartialEq, Eq, Hash, PartialOrd, Ord)]
pub enum T {
    F,
    Tr,
    PkK,
    PkH,
    Older,
    After,
    Hash(u8),
    Multi(u8, u8),
    SMulti(u8, u8),
    MultiA(u8, u8),
    SMultiA(u8, u8),
    A(Box<T>),
    S(Box<T>),
    C(Box<T>),
    D(Box<T>),
    V(Box<T>),
    J(Box<T>),
    N(Box<T>),
    AndV(Box<T>, Box<T>),
    AndB(Box<T>, Box<T>),
    AndOr(Box<T>, Box<T>, Box<T>),
    OrB(Box<T>, Box<T>),
    OrD(Box<T>, Box<T>),
    OrC(Box<T>, Box<T>),
    OrI(Box<T>, Box<T>),
    Thresh(u8, Vec<T>),
}

impl T {
    pub fn nodes(&self) -> usize {
        match self {
            T::A(x) | T::S(x) | T::C(x) | T::D(x) | T::V(x) | T::J(x) | T::N(x) => 1 + x.nodes(),
            T::AndV(a, b) | T::AndB(a, b) | T::OrB(a, b) | T::OrD(a, b) | T::OrC(a, b) | T::OrI(a, b) => 1 + a.nodes() + b.nodes(),
            T::AndOr(a, b, c) => 1 + a.nodes() + b.nodes() + c.nodes(),
            T::Thresh(_, v) => 1 + v.iter().map(|x| x.nodes()).sum::<usize>(),
            _ => 1,
        }
    }
    pub fn root(&self) -> &'static str {
        match self {
            T::F => "0",
            T::Tr => "1",
            T::PkK => "pk_k",
            T::PkH => "pk_h",
            T::Older => "older",
            T::After => "after",
            T::Hash(_) => "hash",
            T::Multi(..) => "multi",
            T::SMulti(..) => "sortedmulti",
            T::MultiA(..) => "multi_a",
            T::SMultiA(..) => "sortedmulti_a",
            T::A(_) => "a",
            T::S(_) => "s",
            T::C(_) => "c",
            T::D(_) => "d",
            T::V(_) => "v",
            T::J(_) => "j",
            T::N(_) => "n",
            T::AndV(..) => "and_v",
            T::AndB(..) => "and_b",
            T::AndOr(..) => "andor",
            T::OrB(..) => "or_b",
            T::OrD(..) => "or_d",
            T::OrC(..) => "or_c",
            T::OrI(..) => "or_i",
            T::Thresh(..) => "thresh",
        }
    }
    /// root fragment with its parameters and the roots of its children (dedupe key part)
    pub fn root_detail(&self) -> String {
        let own = match self {
            T::Hash(k) => format!("hash{k}"),
            T::Multi(k, n) | T::SMulti(k, n) | T::MultiA(k, n) | T::SMultiA(k, n) => format!("{}{}of{}", self.root(), k, n),
            T::Thresh(k, v) => format!("thresh{}of{}", k, v.len()),
            _ => self.root().to_string(),
        };
        let kids: Vec<String> = match self {
            T::A(x) | T::S(x) | T::C(x) | T::D(x) | T::V(x) | T::J(x) | T::N(x) => vec![x.root_detail1()],
            T::AndV(a, b) | T::AndB(a, b) | T::OrB(a, b) | T::OrD(a, b) | T::OrC(a, b) | T::OrI(a, b) => vec![a.root_detail1(), b.root_detail1()],
            T::AndOr(a, b, c) => vec![a.root_detail1(), b.root_detail1(), c.root_detail1()],
            T::Thresh(_, v) => v.iter().map(|x| x.root_detail1()).collect(),
            _ => vec![],
        };
        format!("{}({})", own, kids.join(","))
    }
    fn root_detail1(&self) -> String {
        match self {
            T::Multi(k, n) | T::SMulti(k, n) | T::MultiA(k, n) | T::SMultiA(k, n) => format!("{}{}of{}", self.root(), k, n),
            _ => self.root().to_string(),
        }
    }
    /// (keys, hashes, olders, afters)
    pub fn atoms(&self) -> (usize, usize, usize, usize) {
        fn add(a: (usize, usize, usize, usize), b: (usize, usize, usize, usize)) -> (usize, usize, usize, usize) { (a.0 + b.0, a.1 + b.1, a.2 + b.2, a.3 + b.3) }
        match self {
            T::PkK | T::PkH => (1, 0, 0, 0),
            T::Hash(_) => (0, 1, 0, 0),
            T::Older => (0, 0, 1, 0),
            T::After => (0, 0, 0, 1),
            T::Multi(_, n) | T::SMulti(_, n) | T::MultiA(_, n) | T::SMultiA(_, n) => (*n as usize, 0, 0, 0),
            T::A(x) | T::S(x) | T::C(x) | T::D(x) | T::V(x) | T::J(x) | T::N(x) => x.atoms(),
            T::AndV(a, b) | T::AndB(a, b) | T::OrB(a, b) | T::OrD(a, b) | T::OrC(a, b) | T::OrI(a, b) => add(a.atoms(), b.atoms()),
            T::AndOr(a, b, c) => add(add(a.atoms(), b.atoms()), c.atoms()),
            T::Thresh(_, v) => v.iter().fold((0, 0, 0, 0), |acc, x| add(acc, x.atoms())),
            _ => (0, 0, 0, 0),
        }
    }
}

/// Lock-value palettes: how the (up to two) lock atoms of each kind are instantiated.
#[derive(Copy, Clone, Debug)]
pub struct Palette {
    pub rel: [u32; 2],
    pub abs: [u32; 2],
    pub name: &'static str,
}
pub const PALETTES: [Palette; 3] = [
    Palette { rel: [10, 20], abs: [100, 200], name: "distinct" },
    Palette { rel: [10, 10], abs: [100, 100], name: "equal" },
    Palette { rel: [10, 0x0040_0000 | 10], abs: [100, 500_000_100], name: "mixed-units" },
];

pub const PALETTE_JUNK_BITS: Palette = Palette { rel: [0x0001_0090, 0x0041_0005], abs: [100, 200], name: "junk-bits" };

pub struct Inst<'a> {
    pub fix: &'a Fix,
    pub pal: Palette,
    pub nk: usize,
    pub nh: usize,
    pub no: usize,
    pub na: usize,
    pub hashkinds: Vec<u8>,
}

type Ms<Ctx> = Miniscript<Pk, Ctx>;

impl<'a> Inst<'a> {
    pub fn new(fix: &'a Fix, pal: Palette) -> Self { Inst { fix, pal, nk: 0, nh: 0, no: 0, na: 0, hashkinds: vec![] } }
    fn key(&mut self) -> Option<Pk> {
        if self.nk >= NKEYS {
            return None;
        }
        self.nk += 1;
        Some(self.fix.dkeys[self.nk - 1].clone())
    }
    pub fn build<Ctx: ScriptContext>(&mut self, t: &T) -> Option<Ms<Ctx>> {
        let a = |x: Ms<Ctx>| Arc::new(x);
        let term: Terminal<Pk, Ctx> = match t {
            T::F => Terminal::False,
            T::Tr => Terminal::True,
            T::PkK => Terminal::PkK(self.key()?),
            T::PkH => Terminal::PkH(self.key()?),
            T::Older => {
                if self.no >= 2 {
                    return None;
                }
                self.no += 1;
                Terminal::Older(RelLockTime::from_consensus(self.pal.rel[self.no - 1]).ok()?)
            }
            T::After => {
                if self.na >= 2 {
                    return None;
                }
                self.na += 1;
                Terminal::After(AbsLockTime::from_consensus(self.pal.abs[self.na - 1]).ok()?)
            }
            T::Hash(kind) => {
                if self.nh >= 4 {
                    return None;
                }
                let j = self.nh;
                self.nh += 1;
                self.hashkinds.push(*kind);
                match *kind {
                    vm::H_SHA256 => Terminal::Sha256(self.fix.sha[j]),
                    vm::H_HASH256 => Terminal::Hash256(self.fix.h256[j]),
                    vm::H_RIPEMD160 => Terminal::Ripemd160(self.fix.rip[j]),
                    _ => Terminal::Hash160(self.fix.h160[j]),
                }
            }
            T::Multi(k, n) | T::SMulti(k, n) => {
                let mut ks = vec![];
                for _ in 0..*n {
                    ks.push(self.key()?);
                }
                let th = Threshold::new(*k as usize, ks).ok()?;
                if matches!(t, T::Multi(..)) {
                    Terminal::Multi(th)
                } else {
                    Terminal::SortedMulti(th)
                }
            }
            T::MultiA(k, n) | T::SMultiA(k, n) => {
                let mut ks = vec![];
                for _ in 0..*n {
                    ks.push(self.key()?);
                }
                let th = Threshold::new(*k as usize, ks).ok()?;
                if matches!(t, T::MultiA(..)) {
                    Terminal::MultiA(th)
                } else {
                    Terminal::SortedMultiA(th)
                }
            }
            T::A(x) => Terminal::Alt(a(self.build(x)?)),
            T::S(x) => Terminal::Swap(a(self.build(x)?)),
            T::C(x) => Terminal::Check(a(self.build(x)?)),
            T::D(x) => Terminal::DupIf(a(self.build(x)?)),
            T::V(x) => Terminal::Verify(a(self.build(x)?)),
            T::J(x) => Terminal::NonZero(a(self.build(x)?)),
            T::N(x) => Terminal::ZeroNotEqual(a(self.build(x)?)),
            T::AndV(x, y) => {
                let l = self.build(x)?;
                let r = self.build(y)?;
                Terminal::AndV(a(l), a(r))
            }
            T::AndB(x, y) => {
                let l = self.build(x)?;
                let r = self.build(y)?;
                Terminal::AndB(a(l), a(r))
            }
            T::OrB(x, y) => {
                let l = self.build(x)?;
                let r = self.build(y)?;
                Terminal::OrB(a(l), a(r))
            }
            T::OrD(x, y) => {
                let l = self.build(x)?;
                let r = self.build(y)?;
                Terminal::OrD(a(l), a(r))
            }
            T::OrC(x, y) => {
                let l = self.build(x)?;
                let r = self.build(y)?;
                Terminal::OrC(a(l), a(r))
            }
            T::OrI(x, y) => {
                let l = self.build(x)?;
                let r = self.build(y)?;
                Terminal::OrI(a(l), a(r))
            }
            T::AndOr(x, y, z) => {
                let l = self.build(x)?;
                let m = self.build(y)?;
                let r = self.build(z)?;
                Terminal::AndOr(a(l), a(m), a(r))
            }
            T::Thresh(k, v) => {
                let mut subs = vec![];
                for x in v {
                    subs.push(a(self.build(x)?));
                }
                Terminal::Thresh(Threshold::new(*k as usize, subs).ok()?)
            }
        };
        Miniscript::from_ast(term).ok()
    }
}

// --------------------------------------------------------------------------
// enumeration of well-typed shapes with the real type checker

pub struct Entry {
    pub t: T,
    pub nodes: usize,
    pub class: String,
    pub base: u8,
}

fn kinds(t: &T) -> String {
    let (k, h, o, a) = t.atoms();
    format!("{}{}{}{}", k.min(2), h.min(1), o.min(2), a.min(2))
}

pub fn enumerate<Ctx: ScriptContext>(fix: &Fix, ctx: u8, max_nodes: usize) -> Vec<Entry> {
    let mut atoms: Vec<T> = vec![T::F, T::Tr, T::PkK, T::PkH, T::Older, T::After, T::Hash(vm::H_SHA256), T::Hash(vm::H_HASH160)];
    if ctx == vm::TAP {
        atoms.extend([T::MultiA(1, 2), T::MultiA(2, 2), T::MultiA(2, 3), T::SMultiA(1, 2), T::SMultiA(2, 3)]);
    } else {
        atoms.extend([T::Multi(1, 2), T::Multi(2, 2), T::Multi(2, 3), T::SMulti(1, 2), T::SMulti(2, 3)]);
    }
    let mut seen: HashSet<String> = HashSet::new();
    let mut by_size: Vec<Vec<Entry>> = Vec::new();
    by_size.push(vec![]); // size 0
    let try_add = |t: T, seen: &mut HashSet<String>, out: &mut Vec<Entry>| {
        let (k, h, o, a) = t.atoms();
        if k > NKEYS || h > 2 || o > 2 || a > 2 {
            return;
        }
        let mut inst = Inst::new(fix, PALETTES[0]);
        if let Some(ms) = inst.build::<Ctx>(&t) {
            let class = format!("{}|{}|{}", t.root_detail(), ms.ty, kinds(&t));
            if seen.insert(class.clone()) {
                let base = spec::base_of(ms.ty.corr.base);
                out.push(Entry { nodes: t.nodes(), t, class, base });
            }
        }
    };
    let mut lvl = vec![];
    for t in atoms {
        try_add(t, &mut seen, &mut lvl);
    }
    by_size.push(lvl);
    for s in 2..=max_nodes {
        let mut lvl: Vec<Entry> = vec![];
        // unary
        let prev: Vec<T> = by_size[s - 1].iter().map(|e| e.t.clone()).collect();
        for x in &prev {
            let b = || Box::new(x.clone());
            for t in [T::A(b()), T::S(b()), T::C(b()), T::D(b()), T::V(b()), T::J(b()), T::N(b())] {
                try_add(t, &mut seen, &mut lvl);
            }
        }
        // binary
        for i in 1..s - 1 {
            let j = s - 1 - i;
            if j < 1 {
                continue;
            }
            let xs: Vec<T> = by_size[i].iter().map(|e| e.t.clone()).collect();
            let ys: Vec<T> = by_size[j].iter().map(|e| e.t.clone()).collect();
            for x in &xs {
                for y in &ys {
                    let (bx, by) = (|| Box::new(x.clone()), || Box::new(y.clone()));
                    for t in [T::AndV(bx(), by()), T::AndB(bx(), by()), T::OrB(bx(), by()), T::OrD(bx(), by()), T::OrC(bx(), by()), T::OrI(bx(), by())] {
                        try_add(t, &mut seen, &mut lvl);
                    }
                    // thresh with 2 children
                    for k in 1..=2u8 {
                        try_add(T::Thresh(k, vec![x.clone(), y.clone()]), &mut seen, &mut lvl);
                    }
                }
            }
        }
        // ternary (andor, thresh of 3)
        if s >= 4 {
            for i in 1..s - 2 {
                for j in 1..s - 1 - i {
                    let k3 = s - 1 - i - j;
                    if k3 < 1 {
                        continue;
                    }
                    let xs: Vec<T> = by_size[i].iter().map(|e| e.t.clone()).collect();
                    let ys: Vec<T> = by_size[j].iter().map(|e| e.t.clone()).collect();
                    let zs: Vec<T> = by_size[k3].iter().map(|e| e.t.clone()).collect();
                    for x in &xs {
                        for y in &ys {
                            for z in &zs {
                                try_add(T::AndOr(Box::new(x.clone()), Box::new(y.clone()), Box::new(z.clone())), &mut seen, &mut lvl);
                                for k in 1..=3u8 {
                                    try_add(T::Thresh(k, vec![x.clone(), y.clone(), z.clone()]), &mut seen, &mut lvl);
                                }
                            }
                        }
                    }
                }
            }
        }
        by_size.push(lvl);
    }
    by_size.into_iter().flatten().collect()
}

// --------------------------------------------------------------------------
// script bytes -> abstract ops

pub fn decode_script(fix: &Fix, ctx: u8, script: &bitcoin::Script, hashkinds: &[u8]) -> Result<Vec<Op>, String> {
    let mut ops = vec![];
    for ins in script.instructions() {
        let ins = ins.map_err(|e| format!("script does not parse: {e}"))?;
        match ins {
            Instruction::PushBytes(b) => {
                let b = b.as_bytes();
                let mut e = None;
                for (i, k) in fix.pks.iter().enumerate() {
                    let ser = if ctx == vm::TAP { k.inner.x_only_public_key().0.serialize().to_vec() } else { k.to_bytes() };
                    if b == &ser[..] {
                        e = Some(vm::key(i as u8));
                    }
                    let kh = if ctx == vm::TAP { hash160::Hash::hash(&ser) } else { hash160::Hash::hash(&k.to_bytes()) };
                    if b == &kh[..] {
                        e = Some(vm::el(vm::tag::KEYHASH, i as u8, 0));
                    }
                }
                for (j, kind) in hashkinds.iter().enumerate() {
                    let d: Vec<u8> = match *kind {
                        vm::H_SHA256 => fix.sha[j][..].to_vec(),
                        vm::H_HASH256 => fix.h256[j][..].to_vec(),
                        vm::H_RIPEMD160 => fix.rip[j][..].to_vec(),
                        _ => fix.h160[j][..].to_vec(),
                    };
                    if b == &d[..] {
                        e = Some(vm::el(vm::tag::HASH, j as u8, 0));
                    }
                }
                let e = match e {
                    Some(e) => e,
                    None => {
                        if b.len() > 5 {
                            return Err(format!("unrecognised {}-byte push", b.len()));
                        }
                        // minimal script number
                        let n = bitcoin::script::read_scriptint_non_minimal(b).map_err(|e| format!("{e}")).or_else(|_| {
                            if b.len() == 5 {
                                // 5-byte numbers (lock times >= 2^31) cannot occur in Miniscript
                                Err("5-byte number".to_string())
                            } else {
                                Err("bad number".to_string())
                            }
                        })?;
                        if bitcoin::script::Builder::new().push_int(n).into_script().as_bytes()[..].len() != b.len() + 1 {
                            return Err("non-minimal number push".into());
                        }
                        vm::num(n)
                    }
                };
                ops.push(vm::push(e));
            }
            Instruction::Op(o) => {
                use vm::op::*;
                let v = o.to_u8();
                let code = if (0x51..=0x60).contains(&v) {
                    ops.push(vm::push(vm::num((v - 0x50) as i64)));
                    continue;
                } else if o == opc::OP_IF {
                    IF
                } else if o == opc::OP_NOTIF {
                    NOTIF
                } else if o == opc::OP_ELSE {
                    ELSE
                } else if o == opc::OP_ENDIF {
                    ENDIF
                } else if o == opc::OP_VERIFY {
                    VERIFY
                } else if o == opc::OP_TOALTSTACK {
                    TOALT
                } else if o == opc::OP_FROMALTSTACK {
                    FROMALT
                } else if o == opc::OP_IFDUP {
                    IFDUP
                } else if o == opc::OP_DUP {
                    DUP
                } else if o == opc::OP_SWAP {
                    SWAP
                } else if o == opc::OP_SIZE {
                    SIZE
                } else if o == opc::OP_EQUAL {
                    EQUAL
                } else if o == opc::OP_EQUALVERIFY {
                    EQUALVERIFY
                } else if o == opc::OP_0NOTEQUAL {
                    ZERONOTEQUAL
                } else if o == opc::OP_ADD {
                    ADD
                } else if o == opc::OP_BOOLAND {
                    BOOLAND
                } else if o == opc::OP_BOOLOR {
                    BOOLOR
                } else if o == opc::OP_NUMEQUAL {
                    NUMEQUAL
                } else if o == opc::OP_NUMEQUALVERIFY {
                    NUMEQUALVERIFY
                } else if o == opc::OP_RIPEMD160 {
                    RIPEMD160
                } else if o == opc::OP_SHA256 {
                    SHA256
                } else if o == opc::OP_HASH160 {
                    HASH160
                } else if o == opc::OP_HASH256 {
                    HASH256
                } else if o == opc::OP_CHECKSIG {
                    CHECKSIG
                } else if o == opc::OP_CHECKSIGVERIFY {
                    CHECKSIGVERIFY
                } else if o == opc::OP_CHECKMULTISIG {
                    CHECKMULTISIG
                } else if o == opc::OP_CHECKMULTISIGVERIFY {
                    CHECKMULTISIGVERIFY
                } else if o == opc::OP_CHECKSIGADD {
                    CHECKSIGADD
                } else if o == opc::OP_CLTV {
                    CLTV
                } else if o == opc::OP_CSV {
                    CSV
                } else if o == opc::OP_DROP {
                    DROP
                } else {
                    BAD
                };
                ops.push(vm::o(code));
            }
        }
    }
    Ok(ops)
}

// --------------------------------------------------------------------------
// asset provider answering from a valuation

pub struct GenAssets<'a> {
    pub fix: &'a Fix,
    pub sigs: u8,
    pub pres: u8,
    pub abs: Vec<u32>,
    pub rel: Vec<u32>,
    pub after_ok: u8,
    pub older_ok: u8,
    pub schnorr_len: usize,
}

impl AssetProvider<Pk> for GenAssets<'_> {
    fn provider_lookup_ecdsa_sig(&self, pk: &Pk) -> bool { self.fix.key_id(pk).map(|i| (self.sigs >> i) & 1 == 1).unwrap_or(false) }
    fn provider_lookup_tap_key_spend_sig(&self, _: &Pk) -> Option<usize> { None }
    fn provider_lookup_tap_leaf_script_sig(&self, pk: &Pk, _: &TapLeafHash) -> Option<usize> {
        if self.provider_lookup_ecdsa_sig(pk) {
            Some(self.schnorr_len)
        } else {
            None
        }
    }
    fn provider_lookup_sha256(&self, h: &sha256::Hash) -> bool { self.fix.sha.iter().position(|x| x == h).map(|j| (self.pres >> j) & 1 == 1).unwrap_or(false) }
    fn provider_lookup_hash256(&self, h: &hash256::Hash) -> bool { self.fix.h256.iter().position(|x| x == h).map(|j| (self.pres >> j) & 1 == 1).unwrap_or(false) }
    fn provider_lookup_ripemd160(&self, h: &ripemd160::Hash) -> bool { self.fix.rip.iter().position(|x| x == h).map(|j| (self.pres >> j) & 1 == 1).unwrap_or(false) }
    fn provider_lookup_hash160(&self, h: &hash160::Hash) -> bool { self.fix.h160.iter().position(|x| x == h).map(|j| (self.pres >> j) & 1 == 1).unwrap_or(false) }
    fn check_older(&self, t: relative::LockTime) -> bool {
        let v = t.to_sequence().to_consensus_u32();
        // all atoms with that value share the answer
        self.rel.iter().enumerate().any(|(i, r)| *r == v && (self.older_ok >> i) & 1 == 1)
    }
    fn check_after(&self, t: absolute::LockTime) -> bool {
        let v = t.to_consensus_u32();
        self.abs.iter().enumerate().any(|(i, r)| *r == v && (self.after_ok >> i) & 1 == 1)
    }
}

/// The same asset valuation as a `Satisfier` with concrete (never verified) signatures, for the
/// descriptor-level entry points `Descriptor::get_satisfaction(_mall)`.
pub struct GenSat<'a> {
    pub ga: &'a GenAssets<'a>,
    pub sf: &'a c13::SigFix,
}
impl Satisfier<Pk> for GenSat<'_> {
    fn lookup_ecdsa_sig(&self, pk: &Pk) -> Option<bitcoin::ecdsa::Signature> {
        let k = self.ga.fix.key_id(pk)? as usize;
        if (self.ga.sigs >> k) & 1 == 1 {
            bitcoin::ecdsa::Signature::from_slice(&self.sf.ecdsa_ok[k]).ok()
        } else {
            None
        }
    }
    fn lookup_tap_leaf_script_sig(&self, pk: &Pk, _: &TapLeafHash) -> Option<bitcoin::taproot::Signature> {
        let k = self.ga.fix.key_id(pk)? as usize;
        if (self.ga.sigs >> k) & 1 == 1 {
            bitcoin::taproot::Signature::from_slice(&self.sf.schnorr_ok[k]).ok()
        } else {
            None
        }
    }
    fn lookup_sha256(&self, h: &sha256::Hash) -> Option<[u8; 32]> { self.ga.fix.sha.iter().position(|x| x == h).filter(|j| (self.ga.pres >> j) & 1 == 1).map(|j| self.ga.fix.pre[j]) }
    fn lookup_hash256(&self, h: &hash256::Hash) -> Option<[u8; 32]> { self.ga.fix.h256.iter().position(|x| x == h).filter(|j| (self.ga.pres >> j) & 1 == 1).map(|j| self.ga.fix.pre[j]) }
    fn lookup_ripemd160(&self, h: &ripemd160::Hash) -> Option<[u8; 32]> { self.ga.fix.rip.iter().position(|x| x == h).filter(|j| (self.ga.pres >> j) & 1 == 1).map(|j| self.ga.fix.pre[j]) }
    fn lookup_hash160(&self, h: &hash160::Hash) -> Option<[u8; 32]> { self.ga.fix.h160.iter().position(|x| x == h).filter(|j| (self.ga.pres >> j) & 1 == 1).map(|j| self.ga.fix.pre[j]) }
    fn check_older(&self, t: relative::LockTime) -> bool { AssetProvider::<Pk>::check_older(self.ga, t) }
    fn check_after(&self, t: absolute::LockTime) -> bool { AssetProvider::<Pk>::check_after(self.ga, t) }
}

/// Elements of a descriptor-level satisfaction (witness + scriptSig), wrapper items stripped,
/// mapped back to abstract elements.
fn unmap_satisfaction(fix: &Fix, sf: &c13::SigFix, ctx: u8, wit: &[Vec<u8>], script_sig: &bitcoin::Script, script: &bitcoin::Script) -> Result<Vec<El2>, String> {
    let mut items: Vec<Vec<u8>> = vec![];
    if !wit.is_empty() {
        items = wit.to_vec();
        let strip = if ctx == vm::TAP { 2 } else { 1 };
        if items.len() < strip || items[items.len() - strip] != script.as_bytes() {
            return Err("descriptor-level witness does not end with the script (and control block)".into());
        }
        items.truncate(items.len() - strip);
    } else {
        for ins in script_sig.instructions() {
            match ins.map_err(|e| e.to_string())? {
                Instruction::PushBytes(b) => items.push(b.as_bytes().to_vec()),
                Instruction::Op(o) if o == opc::OP_PUSHNUM_1 => items.push(vec![1]),
                Instruction::Op(o) => return Err(format!("opcode {o} in a scriptSig")),
            }
        }
        if ctx == vm::LEGACY {
            if items.last().map(|l| l.as_slice() != script.as_bytes()).unwrap_or(true) {
                return Err("p2sh scriptSig does not end with the redeem script".into());
            }
            items.pop();
        }
    }
    let mut out = vec![];
    for b in items {
        let e = if b.is_empty() {
            El2(vm::tag::EMPTY, 0, 0)
        } else if b == [1] {
            El2(vm::tag::ONE, 0, 0)
        } else if b == [0u8; 32] {
            El2(vm::tag::ZERO32, 0, 0)
        } else if let Some(k) = sf.ecdsa_ok.iter().position(|s| *s == b) {
            El2(vm::tag::SIG, k as u8, 1)
        } else if let Some(k) = sf.schnorr_ok.iter().position(|s| *s == b) {
            El2(vm::tag::SIG, k as u8, 1)
        } else if let Some(k) = fix.pks.iter().position(|p| p.to_bytes() == b || p.to_bytes()[1..] == b[..]) {
            El2(vm::tag::KEY, k as u8, 0)
        } else if let Some(j) = fix.pre.iter().position(|p| p[..] == b[..]) {
            El2(vm::tag::PRE, j as u8, 0)
        } else {
            return Err(format!("unknown element {:02x?} in a descriptor-level satisfaction", b));
        };
        out.push(e);
    }
    Ok(out)
}

/// 0 = neither exists, 1 = both exist with the same elements, 2 = both exist but differ,
/// 3 = only one of them exists, 4 = the descriptor-level result could not be interpreted
fn compare_code(template: &GWit, got: Result<Result<Vec<El2>, String>, ()>) -> u8 {
    match (template.kind == 0, got) {
        (false, Err(())) => 0,
        (true, Ok(Ok(els))) => {
            if els == template.els {
                1
            } else {
                2
            }
        }
        (_, Ok(Err(_))) => 4,
        _ => 3,
    }
}

// --------------------------------------------------------------------------
// shape artefacts

#[derive(Clone, Debug, PartialEq, Eq, Hash, PartialOrd, Ord)]
pub struct GWit {
    pub kind: u8,
    pub els: Vec<El2>,
    pub has_sig: bool,
    pub abs: u32,
    pub rel: u32,
}
/// El with Ord/Hash
#[derive(Clone, Copy, Debug, PartialEq, Eq, Hash, PartialOrd, Ord)]
pub struct El2(pub u8, pub u8, pub i64);

pub struct GRow {
    pub sigs: u8,
    pub pres: u8,
    pub after_ok: u8,
    pub older_ok: u8,
    pub w: [usize; 6],
    pub sizes: [u32; 4],
    pub rep: (u32, u32),
    /// descriptor-level entry points vs the miniscript-level templates (codes of `compare_code`):
    /// get_satisfaction / get_satisfaction_mall of the primary wrapper, the same of the secondary
    /// wrapper (sh(wsh(..)) in Segwitv0), into_plan / into_plan_mall of the secondary wrapper
    pub dcodes: [u8; 6],
}

pub struct GShape {
    pub name: String,
    pub t: T,
    pub ctx: u8,
    pub pal: Palette,
    pub script_hex: String,
    pub ops: Vec<Op>,
    pub nkeys: usize,
    pub hashkinds: Vec<u8>,
    pub abs: Vec<u32>,
    pub rel: Vec<u32>,
    pub ty: spec::S,
    pub ty_str: String,
    pub sane: bool,
    pub liftable: bool,
    pub policy: Vec<(u8, u8, u8, u8, u32)>,
    pub lockvecs: Vec<(u8, u8)>,
    pub wits: Vec<GWit>,
    pub rows: Vec<GRow>,
    pub has_desc: bool,
    pub fig: Vec<(&'static str, String)>,
    pub nodes: usize,
    pub base: u8,
    /// 0 = enumerated class representative, 1 = signed wrapper and_v(v:pk(K),X), 2 = type taken from the decoder
    pub family: u8,
    /// native encode/decode round-trip findings (C04)
    pub decode_notes: Vec<String>,
    pub decoded_ty: Option<(spec::S, String)>,
    /// C13: the real interpreter's verdicts on library satisfactions and their mutations
    pub itab: Option<c13::GITab>,
}

/// (candidate cap per shape, seed) for the C13 interpreter tables; 0 = do not build them
pub static C13_CAP: std::sync::atomic::AtomicUsize = std::sync::atomic::AtomicUsize::new(0);
pub static C13_SEED: std::sync::atomic::AtomicUsize = std::sync::atomic::AtomicUsize::new(0);

fn map_placeholder(fix: &Fix, p: &Placeholder<Pk>) -> Result<Option<El2>, String> {
    let key = |k: &Pk| fix.key_id(k).ok_or_else(|| "unknown key in template".to_string());
    Ok(Some(match p {
        Placeholder::Pubkey(k, _) => El2(vm::tag::KEY, key(k)?, 0),
        Placeholder::EcdsaSigPk(k) => El2(vm::tag::SIG, key(k)?, 1),
        Placeholder::SchnorrSigPk(k, _, _) => El2(vm::tag::SIG, key(k)?, 1),
        Placeholder::Sha256Preimage(h) => El2(vm::tag::PRE, fix.sha.iter().position(|x| x == h).ok_or("hash")? as u8, 0),
        Placeholder::Hash256Preimage(h) => El2(vm::tag::PRE, fix.h256.iter().position(|x| x == h).ok_or("hash")? as u8, 0),
        Placeholder::Ripemd160Preimage(h) => El2(vm::tag::PRE, fix.rip.iter().position(|x| x == h).ok_or("hash")? as u8, 0),
        Placeholder::Hash160Preimage(h) => El2(vm::tag::PRE, fix.h160.iter().position(|x| x == h).ok_or("hash")? as u8, 0),
        Placeholder::HashDissatisfaction => El2(vm::tag::ZERO32, 0, 0),
        Placeholder::PushOne => El2(vm::tag::ONE, 0, 0),
        Placeholder::PushZero => El2(vm::tag::EMPTY, 0, 0),
        Placeholder::TapScript(_) | Placeholder::TapControlBlock(_) => return Ok(None),
        other => return Err(format!("unsupported placeholder {other}")),
    }))
}

fn map_sat(fix: &Fix, s: &Satisfaction<Placeholder<Pk>>) -> Result<GWit, String> {
    let (kind, els) = match &s.stack {
        Witness::Stack(v) => {
            let mut els = vec![];
            for p in v {
                if let Some(e) = map_placeholder(fix, p)? {
                    els.push(e);
                }
            }
            (0u8, els)
        }
        Witness::Unavailable => (1, vec![]),
        Witness::Impossible => (2, vec![]),
    };
    Ok(GWit { kind, els, has_sig: s.has_sig, abs: s.absolute_timelock.map(|t| t.to_consensus_u32()).unwrap_or(0), rel: s.relative_timelock.map(|t| t.to_consensus_u32()).unwrap_or(0) })
}

fn policy_array(fix: &Fix, p: &Semantic<Pk>, hashkinds: &[u8], out: &mut Vec<(u8, u8, u8, u8, u32)>) -> Result<(), String> {
    use crate::shape::*;
    let hid = |pos: Option<usize>, kind: u8| -> Result<u8, String> {
        let j = pos.ok_or("unknown hash in policy")?;
        if hashkinds.get(j) != Some(&kind) {
            return Err("hash kind mismatch in policy".into());
        }
        Ok(j as u8)
    };
    match p {
        Semantic::Unsatisfiable => out.push((P_UNSAT, 0, 0, 0, 0)),
        Semantic::Trivial => out.push((P_TRIVIAL, 0, 0, 0, 0)),
        Semantic::Key(k) => out.push((P_KEY, fix.key_id(k).ok_or("unknown key in policy")?, 0, 0, 0)),
        Semantic::After(t) => out.push((P_AFTER, 0, 0, 0, t.to_consensus_u32())),
        Semantic::Older(t) => out.push((P_OLDER, 0, 0, 0, t.to_consensus_u32())),
        Semantic::Sha256(h) => out.push((P_HASH, hid(fix.sha.iter().position(|x| x == h), vm::H_SHA256)?, 0, 0, 0)),
        Semantic::Hash256(h) => out.push((P_HASH, hid(fix.h256.iter().position(|x| x == h), vm::H_HASH256)?, 0, 0, 0)),
        Semantic::Ripemd160(h) => out.push((P_HASH, hid(fix.rip.iter().position(|x| x == h), vm::H_RIPEMD160)?, 0, 0, 0)),
        Semantic::Hash160(h) => out.push((P_HASH, hid(fix.h160.iter().position(|x| x == h), vm::H_HASH160)?, 0, 0, 0)),
        Semantic::Thresh(th) => {
            for c in th.iter() {
                policy_array(fix, c, hashkinds, out)?;
            }
            out.push((P_THRESH, 0, th.k() as u8, th.n() as u8, 0));
        }
    }
    Ok(())
}

/// Consistent lock vectors with a representative (nLockTime, nSequence) each.
fn lock_scenarios(abs: &[u32], rel: &[u32]) -> Vec<((u8, u8), (u32, u32))> {
    let mut nlts = vec![0u32];
    nlts.extend(abs.iter().copied());
    let mut seqs = vec![0xffff_fffeu32, 0xffff_ffff];
    seqs.extend(rel.iter().copied());
    let mut out: Vec<((u8, u8), (u32, u32))> = vec![];
    for &l in &nlts {
        for &s in &seqs {
            let mut a = 0u8;
            for (i, t) in abs.iter().enumerate() {
                if vm::bip65(*t, l, s) {
                    a |= 1 << i;
                }
            }
            let mut o = 0u8;
            for (i, t) in rel.iter().enumerate() {
                if vm::bip112(*t, s) {
                    o |= 1 << i;
                }
            }
            if !out.iter().any(|(v, _)| *v == (a, o)) {
                out.push(((a, o), (l, s)));
            }
        }
    }
    out
}

pub trait CtxInfo: ScriptContext {
    const ID: u8;
    fn descriptor(ms: Miniscript<Pk, Self>, fix: &Fix) -> Option<Descriptor<Pk>>;
    /// a second wrapper around the same script (Segwitv0: sh(wsh(..)))
    fn descriptor2(_ms: Miniscript<Pk, Self>, _fix: &Fix) -> Option<Descriptor<Pk>> { None }
    fn sane_params() -> miniscript::ValidationParams;
}
impl CtxInfo for Segwitv0 {
    const ID: u8 = vm::SEGWITV0;
    fn descriptor(ms: Miniscript<Pk, Self>, _: &Fix) -> Option<Descriptor<Pk>> { Descriptor::new_wsh(ms).ok() }
    fn descriptor2(ms: Miniscript<Pk, Self>, _: &Fix) -> Option<Descriptor<Pk>> { Descriptor::new_sh_wsh(ms).ok() }
    fn sane_params() -> miniscript::ValidationParams { Segwitv0::SANE }
}
impl CtxInfo for Legacy {
    const ID: u8 = vm::LEGACY;
    fn descriptor(ms: Miniscript<Pk, Self>, _: &Fix) -> Option<Descriptor<Pk>> { Descriptor::new_sh(ms).ok() }
    fn sane_params() -> miniscript::ValidationParams { Legacy::SANE }
}
impl CtxInfo for BareCtx {
    const ID: u8 = vm::BARE;
    fn descriptor(ms: Miniscript<Pk, Self>, _: &Fix) -> Option<Descriptor<Pk>> { Descriptor::new_bare(ms).ok() }
    fn sane_params() -> miniscript::ValidationParams { BareCtx::SANE }
}
impl CtxInfo for Tap {
    const ID: u8 = vm::TAP;
    fn descriptor(ms: Miniscript<Pk, Self>, fix: &Fix) -> Option<Descriptor<Pk>> {
        let tree = miniscript::descriptor::TapTree::leaf(ms);
        Descriptor::new_tr(fix.internal.clone(), Some(tree)).ok()
    }
    fn sane_params() -> miniscript::ValidationParams { Tap::SANE }
}

fn plan_wit(fix: &Fix, plan: &Result<miniscript::plan::Plan<Pk>, Descriptor<Pk>>) -> Result<(GWit, u32, u32), String> {
    match plan {
        Err(_) => Ok((GWit { kind: 3, els: vec![], has_sig: false, abs: 0, rel: 0 }, 0, 0)),
        Ok(p) => {
            let mut els = vec![];
            let mut has_sig = false;
            for ph in p.witness_template() {
                if let Some(e) = map_placeholder(fix, ph)? {
                    if e.0 == vm::tag::SIG {
                        has_sig = true;
                    }
                    els.push(e);
                }
            }
            let abs = p.absolute_timelock.map(|t| t.to_consensus_u32()).unwrap_or(0);
            let rel = p.relative_timelock.map(|t| t.to_sequence().to_consensus_u32()).unwrap_or(0);
            Ok((GWit { kind: 0, els, has_sig, abs, rel }, p.witness_size() as u32, p.scriptsig_size() as u32))
        }
    }
}

/// Build all artefacts of one shape with the real library.
pub fn build_shape<Ctx: CtxInfo>(fix: &Fix, t: &T, pal: Palette, with_rows: bool) -> Result<GShape, String> {
    let mut inst = Inst::new(fix, pal);
    let ms: Miniscript<Pk, Ctx> = inst.build(t).ok_or("does not type-check")?;
    let abs: Vec<u32> = pal.abs[..inst.na].to_vec();
    let rel: Vec<u32> = pal.rel[..inst.no].to_vec();
    let mut g = shape_from_ms::<Ctx>(fix, &ms, inst.nk, &inst.hashkinds, abs, rel, pal, with_rows)?;
    g.t = t.clone();
    g.nodes = t.nodes();
    Ok(g)
}

/// Artefacts of an arbitrary miniscript over the fixture keys / hashes (key ids < nkeys,
/// hash j of kind hashkinds[j], the given lock values).
pub fn shape_from_ms<Ctx: CtxInfo>(fix: &Fix, ms: &Miniscript<Pk, Ctx>, nkeys: usize, hashkinds: &[u8], abs: Vec<u32>, rel: Vec<u32>, pal: Palette, with_rows: bool) -> Result<GShape, String> {
    struct I<'x> {
        hashkinds: &'x [u8],
    }
    let inst = I { hashkinds };
    let ms = ms.clone();
    let ctx = Ctx::ID;
    let script = ms.encode();
    let ops = decode_script(fix, ctx, &script, inst.hashkinds)?;
    let nh = hashkinds.len();
    let sane = ms.validate(&Ctx::sane_params()).is_ok();
    let mut policy = vec![];
    let liftable = match ms.lift() {
        Ok(p) => {
            policy_array(fix, &p, inst.hashkinds, &mut policy)?;
            true
        }
        Err(_) => false,
    };
    let scen = lock_scenarios(&abs, &rel);
    let lockvecs: Vec<(u8, u8)> = scen.iter().map(|(v, _)| *v).collect();
    let desc = if ms.ty.corr.base == miniscript::miniscript::types::Base::B { Ctx::descriptor(ms.clone(), fix) } else { None };
    let desc2 = if ms.ty.corr.base == miniscript::miniscript::types::Base::B { Ctx::descriptor2(ms.clone(), fix) } else { None };
    let sigfix = c13::SigFix::new();
    let mut wits: Vec<GWit> = vec![];
    let mut rows = vec![];
    let intern = |w: GWit, wits: &mut Vec<GWit>| -> usize {
        if let Some(i) = wits.iter().position(|x| *x == w) {
            i
        } else {
            wits.push(w);
            wits.len() - 1
        }
    };
    // a plan carries no has_sig flag: it is identified with the satisfier's template of the
    // same row when content and reported locks agree
    let intern_plan = |w: GWit, same_row: usize, wits: &mut Vec<GWit>| -> usize {
        let x = &wits[same_row];
        if x.kind == w.kind && x.els == w.els && x.abs == w.abs && x.rel == w.rel {
            same_row
        } else {
            intern(w, wits)
        }
    };
    if with_rows {
        let leaf_hash = if ctx == vm::TAP { Some(TapLeafHash::from_script(&script, bitcoin::taproot::LeafVersion::TapScript)) } else { None };
        for (lv, (vec, rep)) in scen.iter().enumerate() {
            let _ = lv;
            for pres in 0..(1u8 << nh) {
                for sigs in 0..(1u8 << nkeys) {
                    let ga = GenAssets { fix, sigs, pres, abs: abs.clone(), rel: rel.clone(), after_ok: vec.0, older_ok: vec.1, schnorr_len: 64 };
                    let sat = map_sat(fix, &ms.build_template(&ga))?;
                    let sat_m = map_sat(fix, &ms.build_template_mall(&ga))?;
                    let (s2, dis) = Satisfaction::verif_sat_dissat(&ms, &ga, false, ms.ty.mall.signed, leaf_hash);
                    let (s2m, dis_m) = Satisfaction::verif_sat_dissat(&ms, &ga, true, ms.ty.mall.signed, leaf_hash);
                    if map_sat(fix, &s2)? != sat || map_sat(fix, &s2m)? != sat_m {
                        return Err("hook H2 disagrees with build_template".into());
                    }
                    let dis = map_sat(fix, &dis)?;
                    let dis_m = map_sat(fix, &dis_m)?;
                    // plans through the real Assets type
                    let (plan, plan_m) = match &desc {
                        Some(d) => {
                            let mut assets = Assets::new();
                            for i in 0..nkeys {
                                if (sigs >> i) & 1 == 1 {
                                    assets = assets.add(DescriptorPublicKey::from_str(&fix.pks[i].to_string()).unwrap());
                                }
                            }
                            for j in 0..nh {
                                if (pres >> j) & 1 == 1 {
                                    assets = match inst.hashkinds[j] {
                                        vm::H_SHA256 => assets.add(fix.sha[j]),
                                        vm::H_HASH256 => assets.add(fix.h256[j]),
                                        vm::H_RIPEMD160 => assets.add(fix.rip[j]),
                                        _ => assets.add(fix.h160[j]),
                                    };
                                }
                            }
                            if rep.0 != 0 {
                                assets = assets.after(absolute::LockTime::from_consensus(rep.0));
                            }
                            if let Some(r) = Sequence::from_consensus(rep.1).to_relative_lock_time() {
                                assets = assets.older(r);
                            }
                            (plan_wit(fix, &d.clone().into_plan(&assets))?, plan_wit(fix, &d.clone().into_plan_mall(&assets))?)
                        }
                        None => (plan_wit(fix, &Err(Descriptor::new_pk(fix.internal.clone())))?, plan_wit(fix, &Err(Descriptor::new_pk(fix.internal.clone())))?),
                    };
                    // descriptor-level entry points on the same valuation
                    let mut dcodes = [0u8; 6];
                    {
                        let gsat = GenSat { ga: &ga, sf: &sigfix };
                        let run = |d: &Descriptor<Pk>, mall: bool| -> Result<Result<Vec<El2>, String>, ()> {
                            let r = if mall { d.get_satisfaction_mall(&gsat) } else { d.get_satisfaction(&gsat) };
                            match r {
                                Ok((w, ss)) => Ok(unmap_satisfaction(fix, &sigfix, ctx, &w, &ss, &script)),
                                Err(_) => Err(()),
                            }
                        };
                        if let Some(d) = &desc {
                            dcodes[0] = compare_code(&sat, run(d, false));
                            dcodes[1] = compare_code(&sat_m, run(d, true));
                        }
                        if let Some(d2) = &desc2 {
                            dcodes[2] = compare_code(&sat, run(d2, false));
                            dcodes[3] = compare_code(&sat_m, run(d2, true));
                            let mut assets = Assets::new();
                            for i in 0..nkeys {
                                if (sigs >> i) & 1 == 1 {
                                    assets = assets.add(DescriptorPublicKey::from_str(&fix.pks[i].to_string()).unwrap());
                                }
                            }
                            for j in 0..nh {
                                if (pres >> j) & 1 == 1 {
                                    assets = match inst.hashkinds[j] {
                                        vm::H_SHA256 => assets.add(fix.sha[j]),
                                        vm::H_HASH256 => assets.add(fix.h256[j]),
                                        vm::H_RIPEMD160 => assets.add(fix.rip[j]),
                                        _ => assets.add(fix.h160[j]),
                                    };
                                }
                            }
                            if rep.0 != 0 {
                                assets = assets.after(absolute::LockTime::from_consensus(rep.0));
                            }
                            if let Some(r) = Sequence::from_consensus(rep.1).to_relative_lock_time() {
                                assets = assets.older(r);
                            }
                            let p2 = plan_wit(fix, &d2.clone().into_plan(&assets))?;
                            let p2m = plan_wit(fix, &d2.clone().into_plan_mall(&assets))?;
                            let code = |t: &GWit, p: &GWit| -> u8 {
                                match (t.kind == 0, p.kind == 0) {
                                    (false, false) => 0,
                                    (true, true) => {
                                        if t.els == p.els && t.abs == p.abs && t.rel == p.rel {
                                            1
                                        } else {
                                            2
                                        }
                                    }
                                    _ => 3,
                                }
                            };
                            dcodes[4] = code(&sat, &p2.0);
                            dcodes[5] = code(&sat_m, &p2m.0);
                        }
                    }
                    let (i_sat, i_sat_m) = (intern(sat, &mut wits), intern(sat_m, &mut wits));
                    let w = [i_sat, i_sat_m, intern(dis, &mut wits), intern(dis_m, &mut wits), intern_plan(plan.0, i_sat, &mut wits), intern_plan(plan_m.0, i_sat_m, &mut wits)];
                    rows.push(GRow { sigs, pres, after_ok: vec.0, older_ok: vec.1, w, sizes: [plan.1, plan.2, plan_m.1, plan_m.2], rep: *rep, dcodes });
                }
            }
        }
    }
    for w in &wits {
        if w.els.len() > crate::shape::MAXW {
            return Err("witness longer than MAXW".into());
        }
    }
    let c13_cap = C13_CAP.load(std::sync::atomic::Ordering::Relaxed);
    let itab = match (&desc, with_rows && c13_cap > 0) {
        (Some(d), true) => Some(c13::table::<Ctx>(fix, &ms, d, &format!("{}", ms), nkeys, &abs, &rel, &wits, &rows, c13_cap, C13_SEED.load(std::sync::atomic::Ordering::Relaxed) as u64)),
        _ => None,
    };
    // encode -> decode round trip with the real decoder (native; C04 / C06)
    let mut decode_notes = vec![];
    let mut decoded_ty = None;
    let is_b = ms.ty.corr.base == miniscript::miniscript::types::Base::B;
    match Miniscript::<Ctx::Key, Ctx>::decode_with_validation_params(&script, &miniscript::ValidationParams::MAX) {
        _ if !is_b => {}
        Ok(dec) => {
            if dec.encode() != script {
                decode_notes.push(format!("decode(encode(ms)) re-encodes differently: {:x} vs {:x}", dec.encode(), script));
            }
            if dec.ty != ms.ty {
                decode_notes.push(format!("decoded miniscript has type {} but the encoded one has {}", dec.ty, ms.ty));
                decoded_ty = Some((spec::of_type(dec.ty), format!("{}", dec.ty)));
            }
            if dec.script_size() != script.len() {
                decode_notes.push(format!("decoded miniscript predicts script size {} but the script has {} bytes", dec.script_size(), script.len()));
            }
            if dec.ext.pk_cost != ms.ext.pk_cost || dec.ext.static_ops != ms.ext.static_ops || dec.ext.sat_data != ms.ext.sat_data || dec.ext.dissat_data != ms.ext.dissat_data {
                decode_notes.push("decoded miniscript carries different static figures (ExtData) than the encoded one".to_string());
            }
        }
        Err(e) => decode_notes.push(format!("encode(ms) does not decode: {e}")),
    }
    let sd = ms.ext.sat_data;
    let dd = ms.ext.dissat_data;
    let u = |x: Option<usize>| x.map(|v| v.to_string()).unwrap_or("u32::MAX".into());
    let fig = vec![
        ("script_size", ms.script_size().to_string()),
        ("script_len", script.len().to_string()),
        ("sat_stack_size", u(sd.map(|s| s.max_witness_stack_size))),
        ("sat_stack_count", u(sd.map(|s| s.max_witness_stack_count))),
        ("sat_scriptsig_size", u(sd.map(|s| s.max_script_sig_size))),
        ("sat_exec_stack", u(sd.map(|s| s.max_exec_stack_count))),
        ("sat_exec_ops", u(sd.map(|s| s.max_exec_op_count))),
        ("dis_stack_count", u(dd.map(|s| s.max_witness_stack_count))),
        ("dis_exec_stack", u(dd.map(|s| s.max_exec_stack_count))),
        ("dis_exec_ops", u(dd.map(|s| s.max_exec_op_count))),
        ("static_ops", ms.ext.static_ops.to_string()),
        ("max_sat_elems", u(ms.max_satisfaction_witness_elements().ok())),
        ("max_sat_size", u(ms.max_satisfaction_size().ok())),
        ("within_limits", ms.within_resource_limits().to_string()),
    ];
    Ok(GShape {
        name: format!("{}", ms),
        t: T::F,
        ctx,
        pal,
        script_hex: format!("{:x}", script),
        ops,
        nkeys,
        hashkinds: inst.hashkinds.to_vec(),
        abs,
        rel,
        ty: spec::of_type(ms.ty),
        ty_str: format!("{}", ms.ty),
        sane,
        liftable,
        policy,
        lockvecs,
        wits,
        rows,
        has_desc: desc.is_some(),
        fig,
        nodes: 0,
        base: spec::base_of(ms.ty.corr.base),
        family: 0,
        decode_notes,
        decoded_ty,
        itab,
    })
}

/// C04, native only: encode -> decode round trip of every B-typed class representative up to
/// `max_nodes` nodes (no harness is generated for these; disagreements are native findings).
pub fn deep_roundtrip<Ctx: CtxInfo>(fix: &Fix, max_nodes: usize, skip_upto: usize) -> (usize, Vec<String>) {
    let mut n = 0;
    let mut notes = vec![];
    for e in enumerate::<Ctx>(fix, Ctx::ID, max_nodes) {
        if e.base != spec::B || e.nodes <= skip_upto {
            continue;
        }
        // second instantiation for fragments with relative locks: values with bits outside the
        // consensus mask 0x0040ffff (legal in Miniscript, ignored by OP_CSV)
        let pals: &[Palette] = if e.t.atoms().2 > 0 { &[PALETTES[0], PALETTE_JUNK_BITS] } else { &[PALETTES[0]] };
        for pal in pals {
        let mut inst = Inst::new(fix, *pal);
        let ms: Miniscript<Pk, Ctx> = match inst.build(&e.t) {
            Some(m) => m,
            None => continue,
        };
        n += 1;
        let script = ms.encode();
        if ms.script_size() != script.len() {
            notes.push(format!("{}: script_size() = {} but the encoding has {} bytes", ms, ms.script_size(), script.len()));
        }
        match Miniscript::<Ctx::Key, Ctx>::decode_with_validation_params(&script, &miniscript::ValidationParams::MAX) {
            Ok(dec) => {
                if dec.encode() != script {
                    notes.push(format!("{}: decode(encode(ms)) re-encodes differently", ms));
                } else if dec.ty != ms.ty {
                    notes.push(format!("{}: decoded miniscript has type {} but the encoded one has {}", ms, dec.ty, ms.ty));
                } else if dec.script_size() != script.len() {
                    notes.push(format!("{}: decoded miniscript predicts script size {} but the script has {} bytes", ms, dec.script_size(), script.len()));
                }
            }
            Err(err) => notes.push(format!("{}: encode(ms) does not decode: {err}", ms)),
        }
        }
    }
    (n, notes)
}

// --------------------------------------------------------------------------
// emission

fn emit_el(e: &El) -> String { format!("E({},{},{})", e.t, e.a, e.n) }

pub fn emit_shape(out: &mut String, ident: &str, g: &GShape) {
    let _ = writeln!(out, "// {} [{}] ctx={} palette={} script={}", g.name, g.ty_str, g.ctx, g.pal.name, g.script_hex);
    let _ = write!(out, "static {ident}_OPS: [Op; {}] = [", g.ops.len());
    for o in &g.ops {
        if o.code == vm::op::PUSH {
            let _ = write!(out, "P({}),", emit_el(&o.el));
        } else {
            let _ = write!(out, "O({}),", o.code);
        }
    }
    let _ = writeln!(out, "];");
    let _ = write!(out, "static {ident}_POL: [PNode; {}] = [", g.policy.len());
    for p in &g.policy {
        let _ = write!(out, "PNode{{kind:{},a:{},k:{},n:{},v:{}}},", p.0, p.1, p.2, p.3, p.4);
    }
    let _ = writeln!(out, "];");
    let _ = write!(out, "static {ident}_WITS: [Wit; {}] = [", g.wits.len());
    for w in &g.wits {
        let mut els = String::new();
        for i in 0..crate::shape::MAXW {
            if i < w.els.len() {
                let _ = write!(els, "E({},{},{}),", w.els[i].0, w.els[i].1, w.els[i].2);
            } else {
                els.push_str("Z,");
            }
        }
        let wi = g.wits.iter().position(|x| x == w).unwrap();
        let mut roles = 0u8;
        for r in &g.rows {
            for b in 0..6 {
                if r.w[b] == wi {
                    roles |= 1 << b;
                }
            }
        }
        let _ = write!(out, "Wit{{kind:{},n:{},els:[{}],has_sig:{},abs:{},rel:{},roles:{}}},", w.kind, w.els.len(), els, w.has_sig, w.abs, w.rel, roles);
    }
    let _ = writeln!(out, "];");
    let _ = write!(out, "static {ident}_ROWS: [Row; {}] = [", g.rows.len());
    for r in &g.rows {
        let _ = write!(
            out,
            "Row{{sigs:{},pres:{},after_ok:{},older_ok:{},sat:{},sat_m:{},sat_k:{},sat_m_k:{},plan_k:{},plan_m_k:{},dis:{},dis_m:{},plan:{},plan_m:{},plan_wsize:{},plan_ssize:{},plan_m_wsize:{},plan_m_ssize:{},dcodes:{:?}}},",
            r.sigs, r.pres, r.after_ok, r.older_ok, r.w[0], r.w[1], g.wits[r.w[0]].kind, g.wits[r.w[1]].kind, g.wits[r.w[4]].kind, g.wits[r.w[5]].kind, r.w[2], r.w[3], r.w[4], r.w[5], r.sizes[0], r.sizes[1], r.sizes[2], r.sizes[3], r.dcodes
        );
    }
    let _ = writeln!(out, "];");
    let mut hk = [0u8; 4];
    for (i, k) in g.hashkinds.iter().enumerate() {
        hk[i] = *k;
    }
    let pad2 = |v: &Vec<u32>| format!("[{},{}]", v.first().copied().unwrap_or(0), v.get(1).copied().unwrap_or(0));
    let s = g.ty;
    let _ = write!(
        out,
        "pub static {ident}: Shape = Shape{{name:{:?},ctx:{},ops:&{ident}_OPS,nkeys:{},nhash:{},hashkind:{:?},nabs:{},abs:{},nrel:{},rel:{},ty:S{{base:{},z:{},o:{},n:{},d:{},u:{},f:{},e:{},s:{},m:{}}},sane:{},liftable:{},policy:&{ident}_POL,lockvecs:&{:?},wits:&{ident}_WITS,rows:&{ident}_ROWS,has_desc:{},satisfiable:{},fig:Figures{{",
        g.name, g.ctx, g.nkeys, g.hashkinds.len(), hk, g.abs.len(), pad2(&g.abs), g.rel.len(), pad2(&g.rel), s.base, s.z, s.o, s.n, s.d, s.u, s.f, s.e, s.s, s.m, g.sane, g.liftable, g.lockvecs, g.has_desc, g.rows.iter().any(|r| g.wits[r.w[1]].kind == 0)
    );
    for (k, v) in &g.fig {
        let _ = write!(out, "{k}:{v},");
    }
    let _ = writeln!(out, "}}}};");
}

pub const PRELUDE: &str = "// generated by the native generator from /repo's current tree - do not edit\n#![allow(non_upper_case_globals, unused_imports, clippy::all)]\nuse crate::shape::{Figures, PNode, Row, Shape, Wit};\nuse crate::spec::S;\nuse crate::vm::{El, Op};\nconst fn E(t: u8, a: u8, n: i64) -> El { El { t, a, n } }\nconst Z: El = El { t: 0, a: 0, n: 0 };\nconst fn P(e: El) -> Op { Op { code: 0, el: e } }\nconst fn O(c: u8) -> Op { Op { code: c, el: Z } }\n";

// --------------------------------------------------------------------------
// shape selection shared by the W/V properties

pub struct Sel {
    pub shapes: Vec<GShape>,
    pub enumerated: usize,
    pub errors: Vec<String>,
}

fn rotl(x: u64, k: u32) -> u64 { x.rotate_left(k) }
pub fn hash_str(s: &str, seed: u64) -> u64 {
    let mut h = 0x9e37_79b9_7f4a_7c15u64 ^ seed.wrapping_mul(0xff51_afd7_ed55_8ccd);
    for b in s.bytes() {
        h = rotl(h ^ b as u64, 5).wrapping_mul(0x100_0000_01b3);
    }
    h
}

/// Enumerate shapes of one context and build their artefacts.
/// quick: all classes up to `nq` nodes; thorough: up to `nt` nodes with the part above `nq`
/// sub-sampled by seed to `cap` shapes.
pub fn select<Ctx: CtxInfo>(fix: &Fix, tier: &str, seed: u64, nq: usize, nt: usize, cap_quick: usize, cap: usize, with_rows: bool, only_b: bool, fam_nodes: usize, fam_cap: usize) -> Sel {
    let maxn = if tier == "thorough" { nt } else { nq };
    let mut ents = enumerate::<Ctx>(fix, Ctx::ID, maxn);
    let enumerated = ents.len();
    if only_b {
        ents.retain(|e| e.base == spec::B);
    }
    // fixed quick set: smallest first, then class-hash order (seed-independent)
    ents.sort_by_key(|e| (e.nodes, hash_str(&e.class, 0)));
    let (mut quick, mut rest): (Vec<Entry>, Vec<Entry>) = (vec![], vec![]);
    for e in ents {
        if e.nodes <= nq && quick.len() < cap_quick {
            quick.push(e)
        } else {
            rest.push(e)
        }
    }
    if tier == "thorough" {
        rest.sort_by_key(|e| hash_str(&e.class, seed + 1));
        rest.truncate(cap);
        quick.extend(rest);
    }
    let mut shapes = vec![];
    let mut errors = vec![];
    // signed-wrapper family: and_v(v:pk(K),X) makes every path of X signed, so that the
    // default sanity rules accept interesting disjunctions X (C03, C02 non-malleable clause)
    if with_rows {
        let mut fam = vec![];
        for e in quick.iter().filter(|e| e.base == spec::B && e.nodes <= fam_nodes && e.t.atoms().0 < NKEYS) {
            let t = T::AndV(Box::new(T::V(Box::new(T::C(Box::new(T::PkK))))), Box::new(e.t.clone()));
            if let Ok(mut g) = build_shape::<Ctx>(fix, &t, PALETTES[0], true) {
                if g.sane {
                    g.family = 1;
                    fam.push(g);
                }
            }
        }
        fam.sort_by_key(|g| hash_str(&g.name, 7));
        fam.truncate(fam_cap);
        shapes.extend(fam);
    }
    for e in &quick {
        let (_, _, o, a) = e.t.atoms();
        let pals: &[usize] = if o >= 2 || a >= 2 { &[0, 1, 2] } else { &[0] };
        for &p in pals {
            match build_shape::<Ctx>(fix, &e.t, PALETTES[p], with_rows) {
                Ok(g) => {
                    if let Some((dty, dstr)) = g.decoded_ty.clone() {
                        // what the decoder claims about the same script is checked against execution too
                        if let Ok(mut g2) = build_shape::<Ctx>(fix, &e.t, PALETTES[p], false) {
                            g2.ty = dty;
                            g2.ty_str = dstr;
                            g2.name = format!("decoded:{}", g2.name);
                            g2.family = 2;
                            shapes.push(g2);
                        }
                    }
                    shapes.push(g)
                }
                Err(err) => {
                    if p == 0 {
                        errors.push(format!("{:?}: {}", e.t, err))
                    }
                }
            }
        }
    }
    Sel { shapes, enumerated, errors }
}

pub fn json_escape(s: &str) -> String { s.replace('\\', "\\\\").replace('"', "\\\"") }

// --------------------------------------------------------------------------
// entry point: gen <what> <tier> <seed> <out_dir>

pub fn main() {
    let args: Vec<String> = std::env::args().collect();
    let what = args.get(1).map(|s| s.as_str()).unwrap_or("shapes");
    let tier = args.get(2).map(|s| s.as_str()).unwrap_or("quick");
    let seed: u64 = args.get(3).and_then(|s| s.parse().ok()).unwrap_or(0);
    let out_dir = args.get(4).cloned().unwrap_or_else(|| "src/generated".into());
    std::fs::create_dir_all(&out_dir).unwrap();
    let fix = Fix::new();
    if std::env::var("MSVERIF_PROP").map(|p| p == "C13").unwrap_or(false) {
        C13_CAP.store(if tier == "thorough" { 60 } else { 20 }, std::sync::atomic::Ordering::Relaxed);
        C13_SEED.store(seed as usize, std::sync::atomic::Ordering::Relaxed);
    }
    match what {
        "shapes" => gen_shapes(&fix, tier, seed, &out_dir),
        "c08" => c08::generate(&fix, tier, seed, &out_dir),
        "c12" => c12::generate(&fix, tier, seed, &out_dir),
        "c18" => c18::generate(&fix, tier, seed, &out_dir),
        other => {
            eprintln!("unknown generator {other}");
            std::process::exit(2);
        }
    }
}

fn write_if_changed(path: &str, content: &str) {
    if std::fs::read_to_string(path).map(|c| c != content).unwrap_or(true) {
        std::fs::write(path, content).unwrap();
    }
}
pub fn write_out(dir: &str, name: &str, content: &str) { write_if_changed(&format!("{dir}/{name}"), content) }

/// The shared shape tables and the per-property harness wrappers.
fn gen_shapes(fix: &Fix, tier: &str, seed: u64, out_dir: &str) {
    let mut all: Vec<GShape> = vec![];
    let mut enumerated = BTreeMap::new();
    let mut errors = vec![];
    let (nq, nt) = (4usize, 6usize);
    {
        let s = select::<Segwitv0>(fix, tier, seed, nq, nt, if tier == "thorough" { 1400 } else { 600 }, 800, true, false, 3, if tier == "thorough" { 300 } else { 100 });
        enumerated.insert("segwitv0", s.enumerated);
        errors.extend(s.errors);
        all.extend(s.shapes);
    }
    {
        let s = select::<Tap>(fix, tier, seed, nq, nt, if tier == "thorough" { 1300 } else { 400 }, 500, true, false, 3, if tier == "thorough" { 150 } else { 40 });
        enumerated.insert("tap", s.enumerated);
        errors.extend(s.errors);
        all.extend(s.shapes);
    }
    {
        let s = select::<Legacy>(fix, tier, seed, 3, 5, if tier == "thorough" { 240 } else { 120 }, 200, true, false, 2, 20);
        enumerated.insert("legacy", s.enumerated);
        errors.extend(s.errors);
        all.extend(s.shapes);
    }
    {
        let s = select::<BareCtx>(fix, tier, seed, 2, 4, if tier == "thorough" { 60 } else { 40 }, 80, true, false, 0, 0);
        enumerated.insert("bare", s.enumerated);
        errors.extend(s.errors);
        all.extend(s.shapes);
    }
    // C04 only: deep native round trip (no harnesses)
    let mut deep_n = 0usize;
    let mut deep_notes: Vec<String> = vec![];
    if std::env::var("MSVERIF_PROP").map(|p| p == "C04").unwrap_or(false) {
        let deep = std::env::var("MSVERIF_C04_DEEP").ok().and_then(|v| v.parse().ok()).unwrap_or(if tier == "thorough" { 8usize } else { 7 });
        let (n1, m1) = deep_roundtrip::<Segwitv0>(fix, deep, if tier == "thorough" { nt } else { nq });
        let (n2, m2) = deep_roundtrip::<Tap>(fix, deep, if tier == "thorough" { nt } else { nq });
        deep_n = n1 + n2;
        deep_notes.extend(m1);
        deep_notes.extend(m2);
    }
    let mut src = String::from(PRELUDE);
    for (i, g) in all.iter().enumerate() {
        emit_shape(&mut src, &format!("SH{i}"), g);
    }
    // index of shapes
    let _ = writeln!(src, "pub static ALL: [&Shape; {}] = [{}];", all.len(), (0..all.len()).map(|i| format!("&SH{i}")).collect::<Vec<_>>().join(","));
    write_out(out_dir, "shapes.rs", &src);
    // C13 interpreter tables (separate file; empty unless the run is for C13)
    let mut isrc = String::from(c13::PRELUDE);
    for (i, g) in all.iter().enumerate() {
        if let Some(t) = &g.itab {
            c13::emit(&mut isrc, &format!("IC{i}"), &format!("SH{i}"), t);
        }
    }
    write_out(out_dir, "c13.rs", &isrc);
    crate::gen_harness::emit_wrappers(&all, out_dir, tier);
    // info for the evidence file
    let mut info = String::from("{");
    let _ = write!(info, "\"programs\": {}, \"shapes_enumerated\": {{", all.len());
    let _ = write!(info, "{}", enumerated.iter().map(|(k, v)| format!("\"{k}\": {v}")).collect::<Vec<_>>().join(","));
    let _ = write!(info, "}}, \"rows\": {}, \"generator_errors\": [{}], \"samples\": [", all.iter().map(|g| g.rows.len()).sum::<usize>(), errors.iter().take(20).map(|e| format!("\"{}\"", json_escape(e))).collect::<Vec<_>>().join(","));
    let mut first = true;
    for (i, g) in all.iter().enumerate() {
        if i % (all.len() / 12 + 1) != 0 {
            continue;
        }
        if !first {
            info.push(',');
        }
        first = false;
        let _ = write!(info, "{{\"shape\": \"SH{}\", \"miniscript\": \"{}\", \"ctx\": {}, \"type\": \"{}\", \"script_hex\": \"{}\", \"rows\": {}, \"palette\": \"{}\"}}", i, json_escape(&g.name), g.ctx, g.ty_str, g.script_hex, g.rows.len(), g.pal.name);
    }
    info.push_str("], \"c13\": ");
    {
        let tabs: Vec<(usize, &c13::GITab)> = all.iter().enumerate().filter_map(|(i, g)| g.itab.as_ref().map(|t| (i, t))).collect();
        let ncand: usize = tabs.iter().map(|(_, t)| t.cands.len()).sum();
        let ncase: usize = tabs.iter().map(|(_, t)| t.cases.len()).sum();
        let nacc: usize = tabs.iter().map(|(_, t)| t.cases.iter().filter(|c| c.accept).count()).sum();
        let nlib: usize = tabs.iter().map(|(_, t)| t.base_locks.len()).sum();
        let _ = write!(info, "{{\"interpreter_tables\": {}, \"candidate_witnesses\": {}, \"library_satisfactions\": {}, \"interpreter_runs\": {}, \"accepted_by_interpreter\": {}, \"samples\": [", tabs.len(), ncand, nlib, ncase, nacc);
        let mut first = true;
        for (k, (i, t)) in tabs.iter().enumerate() {
            if k % (tabs.len() / 6 + 1) != 0 || t.cases.is_empty() {
                continue;
            }
            let c = t.cases.iter().rev().find(|c| c.accept).unwrap_or(&t.cases[t.cases.len() - 1]);
            if !first {
                info.push(',');
            }
            first = false;
            let _ = write!(info, "{{\"shape\": \"SH{}\", \"miniscript\": \"{}\", \"candidate\": \"{}\", \"witness\": \"{:?}\", \"nLockTime\": {}, \"nSequence\": {}, \"interpreter_accepts\": {}, \"reported\": \"sigs={:#b} pres={:#b} abs={:#b} rel={:#b}\", \"error\": \"{}\"}}", i, json_escape(&all[*i].name), t.how[c.cand], t.cands[c.cand], t.reps[c.lv].0, t.reps[c.lv].1, c.accept, c.sigs, c.pres, c.absm, c.relm, json_escape(&c.err));
        }
        info.push_str("]}");
    }
    info.push_str(", \"native_roundtrip_checked\": ");
    let _ = write!(info, "{}", all.len() + deep_n);
    info.push_str(", \"native_findings\": [");
    let mut first = true;
    for (i, g) in all.iter().enumerate() {
        for n in &g.decode_notes {
            if !first {
                info.push(',');
            }
            first = false;
            let _ = write!(info, "{{\"prop\": \"C04\", \"shape\": \"SH{}\", \"miniscript\": \"{}\", \"ctx\": {}, \"what\": \"{}\"}}", i, json_escape(&g.name), g.ctx, json_escape(n));
        }
    }
    for n in deep_notes.iter().take(40) {
        if !first {
            info.push(',');
        }
        first = false;
        let _ = write!(info, "{{\"prop\": \"C04\", \"shape\": \"deep\", \"miniscript\": \"\", \"ctx\": 0, \"what\": \"{}\"}}", json_escape(n));
    }
    info.push_str("]}");
    write_out(out_dir, "shapes_info.json", &info);
    println!("generated {} shapes ({} generator errors)", all.len(), errors.len());
}
