//! C08 generator: runs the REAL policy compiler natively on enumerated concrete policies and
//! emits the compiled miniscripts' artefacts (script, witness tables, ...) together with the
//! INPUT policy in array form; the harness decides that the output means what the input says.
use std::fmt::Write as _;
use std::str::FromStr;

use miniscript::policy::Concrete;
use miniscript::{BareCtx, Descriptor, Legacy, Miniscript, Segwitv0, Tap};

use super::c18::P;
use super::{emit_shape, hash_str, json_escape, shape_from_ms, write_out, CtxInfo, Fix, GShape, Pk, PALETTES, PRELUDE};
use crate::shape::{P_AFTER, P_HASH, P_KEY, P_OLDER, P_THRESH, P_TRIVIAL, P_UNSAT};

fn policy_lock_array(p: &P, out: &mut Vec<(u8, u8, u8, u8, u32)>) {
    match p {
        P::U => out.push((P_UNSAT, 0, 0, 0, 0)),
        P::T => out.push((P_TRIVIAL, 0, 0, 0, 0)),
        P::K(i) => out.push((P_KEY, *i, 0, 0, 0)),
        P::H(j) => out.push((P_HASH, *j, 0, 0, 0)),
        P::A(v) => out.push((P_AFTER, 0, 0, 0, *v)),
        P::O(v) => out.push((P_OLDER, 0, 0, 0, *v)),
        P::Th(k, v) => {
            for c in v {
                policy_lock_array(c, out);
            }
            out.push((P_THRESH, 0, *k, v.len() as u8, 0));
        }
    }
}

fn atoms(p: &P, keys: &mut Vec<u8>, hashes: &mut Vec<u8>, abs: &mut Vec<u32>, rel: &mut Vec<u32>) {
    match p {
        P::K(i) => {
            if !keys.contains(i) {
                keys.push(*i)
            }
        }
        P::H(j) => {
            if !hashes.contains(j) {
                hashes.push(*j)
            }
        }
        P::A(v) => {
            if !abs.contains(v) {
                abs.push(*v)
            }
        }
        P::O(v) => {
            if !rel.contains(v) {
                rel.push(*v)
            }
        }
        P::Th(_, v) => v.iter().for_each(|c| atoms(c, keys, hashes, abs, rel)),
        _ => {}
    }
}

fn show(p: &P) -> String {
    match p {
        P::U => "UNSATISFIABLE".into(),
        P::T => "TRIVIAL".into(),
        P::K(i) => format!("pk(K{i})"),
        P::A(v) => format!("after({v})"),
        P::O(v) => format!("older({v})"),
        P::H(j) => format!("sha256(H{j})"),
        P::Th(k, v) if v.len() == 2 && *k == 2 => format!("and({},{})", show(&v[0]), show(&v[1])),
        P::Th(k, v) if v.len() == 2 && *k == 1 => format!("or(1@{},2@{})", show(&v[0]), show(&v[1])),
        P::Th(k, v) => format!("thresh({},{})", k, v.iter().map(show).collect::<Vec<_>>().join(",")),
    }
}

fn enumerate(tier: &str, seed: u64) -> Vec<P> {
    let leaves = vec![P::K(0), P::K(1), P::K(2), P::K(3), P::H(0), P::H(1), P::O(10), P::O(0x40_0000 | 10), P::A(100), P::A(500_000_100)];
    let mut out: Vec<P> = vec![P::K(0)];
    let distinct = |p: &P| {
        let (mut k, mut h, mut a, mut r) = (vec![], vec![], vec![], vec![]);
        atoms(p, &mut k, &mut h, &mut a, &mut r);
        fn count(p: &P) -> usize {
            match p {
                P::Th(_, v) => v.iter().map(count).sum(),
                P::U | P::T => 0,
                _ => 1,
            }
        }
        count(p) == k.len() + h.len() + a.len() + r.len() && a.len() <= 2 && r.len() <= 2 && h.len() <= 2
    };
    let mut l1 = vec![];
    for a in &leaves {
        for b in &leaves {
            for k in 1..=2u8 {
                l1.push(P::Th(k, vec![a.clone(), b.clone()]));
            }
        }
    }
    for a in &leaves[..6] {
        for b in &leaves[..7] {
            for c in &leaves {
                for k in 1..=3u8 {
                    l1.push(P::Th(k, vec![a.clone(), b.clone(), c.clone()]));
                }
            }
        }
    }
    l1.retain(distinct);
    let mut l2 = vec![];
    for a in l1.iter().filter(|p| hash_str(&show(p), 5) % 3 == 0) {
        for b in &leaves {
            for k in 1..=2u8 {
                l2.push(P::Th(k, vec![a.clone(), b.clone()]));
                l2.push(P::Th(k, vec![b.clone(), a.clone()]));
            }
        }
    }
    for (i, a) in l1.iter().enumerate().filter(|(_, p)| matches!(p, P::Th(_, v) if v.len() == 2)) {
        for b in l1.iter().skip(i % 5).step_by(17).filter(|p| matches!(p, P::Th(_, v) if v.len() == 2)) {
            for k in 1..=2u8 {
                l2.push(P::Th(k, vec![a.clone(), b.clone()]));
            }
        }
    }
    l2.retain(distinct);
    let th = tier == "thorough";
    let s1 = if th { seed + 41 } else { 41 };
    l1.sort_by_key(|p| hash_str(&show(p), s1));
    l1.truncate(if th { 1200 } else { 55 });
    l2.sort_by_key(|p| hash_str(&show(p), s1 + 1));
    l2.truncate(if th { 1500 } else { 60 });
    out.extend(l1);
    out.extend(l2);
    out
}

/// The same policy with every 1-of-n / n-of-n threshold of three children written as an n-ary
/// `or` / `and` through the public enum (the string parser only builds binary ones).  The
/// library refuses these today (`NonBinaryArgOr` / `NonBinaryArgAnd`): they are offered so that a
/// compiler that starts accepting them is checked for meaning like every other output.
fn to_concrete_nary(p: &P, fix: &Fix) -> Option<Concrete<Pk>> {
    use std::sync::Arc;
    match p {
        P::Th(k, v) if v.len() == 3 && (*k == 1 || *k == 3) => {
            let subs: Option<Vec<_>> = v.iter().map(|x| to_concrete_nary(x, fix).map(Arc::new)).collect();
            let subs = subs?;
            Some(if *k == 1 { Concrete::Or(subs.into_iter().enumerate().map(|(i, s)| (3 - i, s)).collect()) } else { Concrete::And(subs) })
        }
        P::Th(k, v) => {
            let subs: Option<Vec<_>> = v.iter().map(|x| to_concrete_nary(x, fix).map(Arc::new)).collect();
            let subs = subs?;
            Some(if v.len() == 2 && *k == 2 {
                Concrete::And(subs)
            } else if v.len() == 2 && *k == 1 {
                Concrete::Or(subs.into_iter().enumerate().map(|(i, s)| (1 + i, s)).collect())
            } else {
                Concrete::Thresh(miniscript::Threshold::new(*k as usize, subs).ok()?)
            })
        }
        other => other.to_concrete(fix),
    }
}
fn has_nary(p: &P) -> bool {
    match p {
        P::Th(k, v) => (v.len() == 3 && (*k == 1 || *k == 3)) || v.iter().any(has_nary),
        _ => false,
    }
}

struct Out {
    name: String,
    ctx_name: &'static str,
    g: GShape,
}

fn compile_ctx<Ctx: CtxInfo>(fix: &Fix, p: &P, conc: &Concrete<Pk>, ctx_name: &'static str, outs: &mut Vec<Out>, refused: &mut usize, findings: &mut Vec<String>)
where
    Miniscript<Pk, Ctx>: FromStr,
{
    let ms: Miniscript<Pk, Ctx> = match conc.compile::<Ctx>() {
        Ok(ms) => ms,
        Err(_) => {
            *refused += 1;
            return;
        }
    };
    let (mut k, mut h, mut a, mut r) = (vec![], vec![], vec![], vec![]);
    atoms(p, &mut k, &mut h, &mut a, &mut r);
    let nkeys = k.iter().max().map(|m| *m as usize + 1).unwrap_or(0);
    let nh = h.iter().max().map(|m| *m as usize + 1).unwrap_or(0);
    let hashkinds = vec![crate::vm::H_SHA256; nh];
    let mut g = match shape_from_ms::<Ctx>(fix, &ms, nkeys, &hashkinds, a, r, PALETTES[0], true) {
        Ok(g) => g,
        Err(e) => {
            findings.push(format!("compile::<{}>({}) = {}: artefacts cannot be built: {}", ctx_name, show(p), ms, e));
            return;
        }
    };
    // the INPUT policy replaces the lifted one
    g.policy.clear();
    policy_lock_array(p, &mut g.policy);
    g.liftable = true;
    // re-parse from its own string under the default sanity rules (native)
    let s = ms.to_string();
    match Miniscript::<Pk, Ctx>::from_str(&s) {
        Ok(m2) if m2 == ms => {}
        Ok(_) => findings.push(format!("compile::<{}>({}) = {}: re-parses to a different miniscript", ctx_name, show(p), s)),
        Err(_) => findings.push(format!("compile::<{}>({}) = {}: does not re-parse under the default sanity rules", ctx_name, show(p), s)),
    }
    outs.push(Out { name: format!("{} --{}--> {}", show(p), ctx_name, s), ctx_name, g });
}

pub fn generate(fix: &Fix, tier: &str, seed: u64, out_dir: &str) {
    let pols = enumerate(tier, seed);
    let mut outs: Vec<Out> = vec![];
    let mut refused = 0usize;
    let mut findings: Vec<String> = vec![];
    let mut tr_cases: Vec<(String, i32, Vec<usize>)> = vec![];
    let (mut nary_offered, mut nary_accepted) = (0usize, 0usize);
    for p in &pols {
        let conc = match p.to_concrete(fix) {
            Some(c) => c,
            None => continue,
        };
        compile_ctx::<Segwitv0>(fix, p, &conc, "Segwitv0", &mut outs, &mut refused, &mut findings);
        compile_ctx::<Tap>(fix, p, &conc, "Tap", &mut outs, &mut refused, &mut findings);
        if hash_str(&show(p), 9) % 3 == 0 {
            compile_ctx::<Legacy>(fix, p, &conc, "Legacy", &mut outs, &mut refused, &mut findings);
        }
        if hash_str(&show(p), 9) % 7 == 0 {
            compile_ctx::<BareCtx>(fix, p, &conc, "Bare", &mut outs, &mut refused, &mut findings);
        }
        // n-ary and / or through the enum (refused today)
        if has_nary(p) {
            if let Some(cn) = to_concrete_nary(p, fix) {
                nary_offered += 1;
                let before = outs.len();
                compile_ctx::<Segwitv0>(fix, p, &cn, "Segwitv0 (n-ary enum form)", &mut outs, &mut refused, &mut findings);
                compile_ctx::<Tap>(fix, p, &cn, "Tap (n-ary enum form)", &mut outs, &mut refused, &mut findings);
                nary_accepted += outs.len() - before;
            }
        }
        // taproot descriptor: internal key OR leaves
        if let Ok(Descriptor::Tr(tr)) = conc.compile_tr(Some(fix.internal.clone())) {
            let (mut k, mut h, mut a, mut r) = (vec![], vec![], vec![], vec![]);
            atoms(p, &mut k, &mut h, &mut a, &mut r);
            let nkeys = k.iter().max().map(|m| *m as usize + 1).unwrap_or(0);
            let nh = h.iter().max().map(|m| *m as usize + 1).unwrap_or(0);
            let hashkinds = vec![crate::vm::H_SHA256; nh];
            let internal = fix.key_id(tr.internal_key()).map(|i| i as i32).unwrap_or(-1);
            let mut leaf_ids = vec![];
            let mut ok = true;
            for leaf in tr.leaves() {
                match shape_from_ms::<Tap>(fix, leaf.miniscript(), nkeys, &hashkinds, a.clone(), r.clone(), PALETTES[0], true) {
                    Ok(mut g) => {
                        g.policy.clear();
                        policy_lock_array(p, &mut g.policy);
                        g.liftable = true;
                        leaf_ids.push(outs.len());
                        outs.push(Out { name: format!("{} --tr leaf--> {}", show(p), leaf.miniscript()), ctx_name: "TrLeaf", g });
                    }
                    Err(e) => {
                        findings.push(format!("compile_tr({}): leaf artefacts cannot be built: {}", show(p), e));
                        ok = false;
                    }
                }
            }
            if ok && !leaf_ids.is_empty() && leaf_ids.len() <= 4 {
                tr_cases.push((format!("{} --compile_tr--> {}", show(p), tr), internal, leaf_ids));
            }
        }
    }
    let mut src = String::from(PRELUDE);
    src.push_str("use crate::c08::TrCase;\n");
    for (i, o) in outs.iter().enumerate() {
        emit_shape(&mut src, &format!("SH{i}"), &o.g);
    }
    for (i, (name, internal, leaves)) in tr_cases.iter().enumerate() {
        let _ = writeln!(src, "pub static TR{i}: TrCase = TrCase{{name:{:?},internal:{},leaves:&[{}]}};", name, internal, leaves.iter().map(|l| format!("&SH{l}")).collect::<Vec<_>>().join(","));
    }
    // wrappers: semantics + sanity per compiled miniscript, non-malleability, taproot cases
    let ms_ids: Vec<usize> = (0..outs.len()).filter(|i| outs[*i].ctx_name != "TrLeaf").collect();
    let unwind_of = |ids: &[usize]| ids.iter().map(|i| outs[*i].g.ops.len().max(outs[*i].g.wits.len()).max(outs[*i].g.policy.len()).max(outs[*i].g.lockvecs.len())).max().unwrap_or(12).max(12) + 2;
    for (bi, chunk) in ms_ids.chunks(4).enumerate() {
        let _ = writeln!(src, "// @h c08_sem_{bi:03} kind=V programs={} timeout=1800 mem=4 covers=any", chunk.len());
        let _ = writeln!(src, "#[cfg_attr(kani, kani::proof)]\n#[cfg_attr(kani, kani::unwind({}))]\npub fn c08_sem_{bi:03}() {{", unwind_of(chunk));
        for i in chunk {
            let _ = writeln!(src, "    crate::c08::sem(&SH{i}); // {}", outs[*i].name);
        }
        let _ = writeln!(src, "}}");
    }
    let nm_ids: Vec<usize> = ms_ids.iter().copied().filter(|i| outs[*i].g.rows.iter().any(|r| outs[*i].g.wits[r.w[0]].kind == 0)).collect();
    for (bi, chunk) in nm_ids.chunks(4).enumerate() {
        let _ = writeln!(src, "// @h c08_nm_{bi:03} kind=W programs={} timeout=1800 mem=4 covers=any", chunk.len());
        let _ = writeln!(src, "#[cfg_attr(kani, kani::proof)]\n#[cfg_attr(kani, kani::unwind({}))]\npub fn c08_nm_{bi:03}() {{", unwind_of(chunk));
        for i in chunk {
            let _ = writeln!(src, "    crate::c08::nm(&SH{i}); // {}", outs[*i].name);
        }
        let _ = writeln!(src, "}}");
    }
    for (bi, chunk) in (0..tr_cases.len()).collect::<Vec<_>>().chunks(3).enumerate() {
        let ids: Vec<usize> = chunk.iter().flat_map(|c| tr_cases[*c].2.clone()).collect();
        let _ = writeln!(src, "// @h c08_tr_{bi:03} kind=V programs={} timeout=1800 mem=4 covers=any", chunk.len());
        let _ = writeln!(src, "#[cfg_attr(kani, kani::proof)]\n#[cfg_attr(kani, kani::unwind({}))]\npub fn c08_tr_{bi:03}() {{", unwind_of(&ids));
        for c in chunk {
            let _ = writeln!(src, "    crate::c08::tr(&TR{c}); // {}", tr_cases[*c].0);
        }
        let _ = writeln!(src, "}}");
    }
    write_out(out_dir, "c08.rs", &src);
    let mut samples = vec![];
    for (i, o) in outs.iter().enumerate() {
        if i % (outs.len() / 10 + 1) == 0 {
            samples.push(format!("{{\"compiled\": \"{}\", \"script_hex\": \"{}\", \"rows\": {}}}", json_escape(&o.name), o.g.script_hex, o.g.rows.len()));
        }
    }
    let info = format!(
        "{{\"programs\": {}, \"policies\": {}, \"compilations_refused\": {}, \"taproot_descriptors\": {}, \"nary_policies_offered\": {}, \"nary_compilations_accepted\": {}, \"samples\": [{}], \"native_findings\": [{}]}}",
        outs.len(),
        pols.len(),
        refused,
        tr_cases.len(),
        nary_offered,
        nary_accepted,
        samples.join(","),
        findings.iter().map(|f| format!("{{\"prop\": \"C08\", \"what\": \"{}\"}}", json_escape(f))).collect::<Vec<_>>().join(",")
    );
    write_out(out_dir, "c08_info.json", &info);
    let modp = format!("{out_dir}/mod.rs");
    let cur = std::fs::read_to_string(&modp).unwrap_or_default();
    if !cur.contains("pub mod c08;") {
        std::fs::write(&modp, format!("{}pub mod c08;\n", if cur.is_empty() { "// generated - do not edit\n".to_string() } else { cur })).unwrap();
    }
    println!("generated {} compiled outputs from {} policies ({} refused, {} tr descriptors, {} native findings)", outs.len(), pols.len(), refused, tr_cases.len(), findings.len());
}
