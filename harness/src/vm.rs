//! Reference Script machine over an abstract element domain (DESIGN §4.2).
//!
//! Heap-free: fixed-size arrays so that CBMC sees no allocation.  Executes the
//! ~40 opcodes Miniscript emits, on a script that the native generator decoded
//! from the bytes the library's `encode()` produced (pushes are mapped to
//! abstract elements through the key/hash tables of the shape).
//!
//! Standardness flags are ON (NULLFAIL, NULLDUMMY, MINIMALIF in witness
//! contexts, CLEANSTACK, STRICTENC/DERSIG): the properties speak about
//! "consensus and standardness rules of the output type".

#[derive(Copy, Clone, PartialEq, Eq, Debug)]
pub struct El {
    pub t: u8,
    pub a: u8,
    pub n: i64,
}

pub mod tag {
    pub const EMPTY: u8 = 0; // <> : false / number 0
    pub const ONE: u8 = 1; // 0x01
    pub const NUM: u8 = 2; // minimally encoded number n, n not in {0,1}
    pub const SIG: u8 = 3; // well-formed signature; a = key id it verifies under; n=1 verifies, n=0 does not
    pub const KEY: u8 = 4; // serialized public key a
    pub const PRE: u8 = 5; // the 32-byte preimage of hash atom a
    pub const ZERO32: u8 = 6; // 32 zero bytes (false as a boolean, not a number)
    pub const HASH: u8 = 7; // the digest constant of hash atom a
    pub const KEYHASH: u8 = 8; // hash160 of key a
    pub const JUNK: u8 = 9; // other byte string, id a, length n (>4, not 32 zero bytes), truthy
    pub const DIGEST: u8 = 10; // digest of something that is not a known preimage
}

pub const fn el(t: u8, a: u8, n: i64) -> El { El { t, a, n } }
pub const EMPTY: El = el(tag::EMPTY, 0, 0);
pub const ONE: El = el(tag::ONE, 0, 0);
pub const ZERO32: El = el(tag::ZERO32, 0, 0);
pub const fn num(n: i64) -> El {
    if n == 0 {
        EMPTY
    } else if n == 1 {
        ONE
    } else {
        el(tag::NUM, 0, n)
    }
}
pub const fn sig(k: u8) -> El { el(tag::SIG, k, 1) }
pub const fn badsig(k: u8) -> El { el(tag::SIG, k, 0) }
pub const fn key(k: u8) -> El { el(tag::KEY, k, 0) }
pub const fn pre(h: u8) -> El { el(tag::PRE, h, 0) }

/// Script contexts.
pub const BARE: u8 = 0;
pub const LEGACY: u8 = 1; // p2sh
pub const SEGWITV0: u8 = 2;
pub const TAP: u8 = 3;

pub mod op {
    pub const PUSH: u8 = 0;
    pub const IF: u8 = 1;
    pub const NOTIF: u8 = 2;
    pub const ELSE: u8 = 3;
    pub const ENDIF: u8 = 4;
    pub const VERIFY: u8 = 5;
    pub const TOALT: u8 = 6;
    pub const FROMALT: u8 = 7;
    pub const IFDUP: u8 = 8;
    pub const DUP: u8 = 9;
    pub const SWAP: u8 = 10;
    pub const SIZE: u8 = 11;
    pub const EQUAL: u8 = 12;
    pub const EQUALVERIFY: u8 = 13;
    pub const ZERONOTEQUAL: u8 = 14;
    pub const ADD: u8 = 15;
    pub const BOOLAND: u8 = 16;
    pub const BOOLOR: u8 = 17;
    pub const NUMEQUAL: u8 = 18;
    pub const NUMEQUALVERIFY: u8 = 19;
    pub const RIPEMD160: u8 = 20;
    pub const SHA256: u8 = 21;
    pub const HASH160: u8 = 22;
    pub const HASH256: u8 = 23;
    pub const CHECKSIG: u8 = 24;
    pub const CHECKSIGVERIFY: u8 = 25;
    pub const CHECKMULTISIG: u8 = 26;
    pub const CHECKMULTISIGVERIFY: u8 = 27;
    pub const CHECKSIGADD: u8 = 28;
    pub const CLTV: u8 = 29;
    pub const CSV: u8 = 30;
    pub const DROP: u8 = 31;
    /// an opcode Miniscript never emits: executing it aborts
    pub const BAD: u8 = 255;
}

#[derive(Copy, Clone, PartialEq, Eq, Debug)]
pub struct Op {
    pub code: u8,
    pub el: El,
}
pub const fn o(code: u8) -> Op { Op { code, el: EMPTY } }
pub const fn push(e: El) -> Op { Op { code: op::PUSH, el: e } }

/// hash function kinds for hash atoms
pub const H_SHA256: u8 = 0;
pub const H_HASH256: u8 = 1;
pub const H_RIPEMD160: u8 = 2;
pub const H_HASH160: u8 = 3;

pub const STACK: usize = 16;
pub const ALT: usize = 4;
pub const MAXKEYS: usize = 4;

#[derive(Copy, Clone)]
pub struct Env {
    pub ctx: u8,
    pub hashkind: [u8; 4],
    pub n_lock_time: u32,
    pub n_sequence: u32,
}

#[derive(Copy, Clone)]
pub struct Machine {
    pub st: [El; STACK],
    pub sp: usize,
    pub alt: [El; ALT],
    pub ap: usize,
    /// depth of the condition stack and depth of the first false entry (0 = all true)
    pub cdepth: u8,
    pub cfalse: u8,
    pub ok: bool,
    /// executed non-push opcodes by Bitcoin's counting rule (incl. multisig keys)
    pub ops: u32,
    /// high-water mark of stack + altstack
    pub maxdepth: usize,
    /// overflow of the machine's own arrays (never a verdict: harness must treat as inconclusive)
    pub overflow: bool,
    /// trace of what the executed path checked successfully (C13): keys whose signature verified,
    /// hash atoms whose preimage was hashed, CLTV / CSV operands that passed (up to 2 each)
    pub t_sigs: u8,
    pub t_pres: u8,
    pub t_cltv: [i64; 2],
    pub t_ncltv: u8,
    pub t_csv: [i64; 2],
    pub t_ncsv: u8,
}

pub fn truthy(e: El) -> bool { !(e.t == tag::EMPTY || e.t == tag::ZERO32) }

fn as_num(e: El) -> Option<i64> {
    match e.t {
        tag::EMPTY => Some(0),
        tag::ONE => Some(1),
        tag::NUM => Some(e.n),
        _ => None,
    }
}

fn size_of(e: El, ctx: u8) -> i64 {
    match e.t {
        tag::EMPTY => 0,
        tag::ONE => 1,
        tag::NUM => {
            let v = if e.n < 0 { -e.n } else { e.n };
            if v < 0x80 {
                1
            } else if v < 0x8000 {
                2
            } else if v < 0x80_0000 {
                3
            } else if v < 0x8000_0000 {
                4
            } else {
                5
            }
        }
        tag::SIG => {
            if ctx == TAP {
                64
            } else {
                72
            }
        }
        tag::KEY => {
            if ctx == TAP {
                32
            } else {
                33
            }
        }
        tag::PRE | tag::ZERO32 => 32,
        tag::HASH | tag::DIGEST => 32, // never inspected by SIZE in Miniscript scripts
        tag::KEYHASH => 20,
        _ => e.n,
    }
}

fn eq(a: El, b: El) -> bool { a.t != tag::DIGEST && b.t != tag::DIGEST && a.t == b.t && a.a == b.a && a.n == b.n }

fn boolel(b: bool) -> El {
    if b {
        ONE
    } else {
        EMPTY
    }
}

impl Machine {
    pub fn new() -> Self {
        Machine { st: [EMPTY; STACK], sp: 0, alt: [EMPTY; ALT], ap: 0, cdepth: 0, cfalse: 0, ok: true, ops: 0, maxdepth: 0, overflow: false, t_sigs: 0, t_pres: 0, t_cltv: [0; 2], t_ncltv: 0, t_csv: [0; 2], t_ncsv: 0 }
    }
    #[inline]
    fn push(&mut self, e: El) {
        if self.sp >= STACK {
            self.overflow = true;
            self.ok = false;
            return;
        }
        self.st[self.sp] = e;
        self.sp += 1;
        let d = self.sp + self.ap;
        if d > self.maxdepth {
            self.maxdepth = d;
        }
    }
    #[inline]
    fn pop(&mut self) -> El {
        if self.sp == 0 {
            self.ok = false;
            return EMPTY;
        }
        self.sp -= 1;
        self.st[self.sp]
    }
    #[inline]
    fn top(&mut self) -> El {
        if self.sp == 0 {
            self.ok = false;
            return EMPTY;
        }
        self.st[self.sp - 1]
    }
    #[inline]
    fn popnum(&mut self) -> i64 {
        let e = self.pop();
        match as_num(e) {
            Some(n) => n,
            None => {
                self.ok = false;
                0
            }
        }
    }
    #[inline]
    fn exec(&self) -> bool { self.cfalse == 0 }

    fn check_sig(&mut self, s: El, k: El, env: &Env) -> bool {
        // key must be a well-formed key of the context's kind
        if k.t != tag::KEY {
            self.ok = false;
            return false;
        }
        if s.t == tag::EMPTY {
            return false;
        }
        if s.t != tag::SIG {
            // STRICTENC / DERSIG / wrong schnorr size: script fails
            self.ok = false;
            return false;
        }
        let _ = env;
        let r = s.n == 1 && s.a == k.a;
        if r && k.a < 8 {
            self.t_sigs |= 1 << k.a;
        }
        r
    }

    pub fn step(&mut self, o: Op, env: &Env) {
        let c = o.code;
        if c == op::PUSH {
            if self.exec() {
                self.push(o.el);
            }
            return;
        }
        // every non-push opcode counts, executed or not
        self.ops += 1;
        match c {
            op::IF | op::NOTIF => {
                let mut v = false;
                if self.exec() {
                    let e = self.pop();
                    if env.ctx == SEGWITV0 || env.ctx == TAP {
                        // MINIMALIF (policy in v0, consensus in tapscript)
                        if !(e.t == tag::EMPTY || e.t == tag::ONE) {
                            self.ok = false;
                        }
                    }
                    v = truthy(e);
                    if c == op::NOTIF {
                        v = !v;
                    }
                }
                self.cdepth += 1;
                if self.cfalse == 0 && !v {
                    self.cfalse = self.cdepth;
                }
            }
            op::ELSE => {
                if self.cdepth == 0 {
                    self.ok = false;
                } else if self.cfalse == 0 {
                    self.cfalse = self.cdepth;
                } else if self.cfalse == self.cdepth {
                    self.cfalse = 0;
                }
            }
            op::ENDIF => {
                if self.cdepth == 0 {
                    self.ok = false;
                } else {
                    if self.cfalse == self.cdepth {
                        self.cfalse = 0;
                    }
                    self.cdepth -= 1;
                }
            }
            _ => {
                if !self.exec() {
                    return;
                }
                self.exec_op(c, env);
            }
        }
    }

    fn exec_op(&mut self, c: u8, env: &Env) {
        match c {
            op::VERIFY => {
                let e = self.pop();
                if !truthy(e) {
                    self.ok = false;
                }
            }
            op::TOALT => {
                let e = self.pop();
                if self.ap >= ALT {
                    self.overflow = true;
                    self.ok = false;
                } else {
                    self.alt[self.ap] = e;
                    self.ap += 1;
                }
            }
            op::FROMALT => {
                if self.ap == 0 {
                    self.ok = false;
                } else {
                    self.ap -= 1;
                    let e = self.alt[self.ap];
                    self.push(e);
                }
            }
            op::IFDUP => {
                let e = self.top();
                if truthy(e) {
                    self.push(e);
                }
            }
            op::DUP => {
                let e = self.top();
                self.push(e);
            }
            op::DROP => {
                self.pop();
            }
            op::SWAP => {
                let a = self.pop();
                let b = self.pop();
                self.push(a);
                self.push(b);
            }
            op::SIZE => {
                let e = self.top();
                self.push(num(size_of(e, env.ctx)));
            }
            op::EQUAL | op::EQUALVERIFY => {
                let a = self.pop();
                let b = self.pop();
                let r = eq(a, b);
                // trace: a digest computed from a witness preimage matched the script's constant
                if r && a.t == tag::HASH && a.a < 8 {
                    self.t_pres |= 1 << a.a;
                }
                if c == op::EQUAL {
                    self.push(boolel(r));
                } else if !r {
                    self.ok = false;
                }
            }
            op::ZERONOTEQUAL => {
                let a = self.popnum();
                self.push(boolel(a != 0));
            }
            op::ADD => {
                let a = self.popnum();
                let b = self.popnum();
                self.push(num(a + b));
            }
            op::BOOLAND => {
                let a = self.popnum();
                let b = self.popnum();
                self.push(boolel(a != 0 && b != 0));
            }
            op::BOOLOR => {
                let a = self.popnum();
                let b = self.popnum();
                self.push(boolel(a != 0 || b != 0));
            }
            op::NUMEQUAL | op::NUMEQUALVERIFY => {
                let a = self.popnum();
                let b = self.popnum();
                if c == op::NUMEQUAL {
                    self.push(boolel(a == b));
                } else if a != b {
                    self.ok = false;
                }
            }
            op::RIPEMD160 | op::SHA256 | op::HASH160 | op::HASH256 => {
                let e = self.pop();
                let kind = match c {
                    op::SHA256 => H_SHA256,
                    op::HASH256 => H_HASH256,
                    op::RIPEMD160 => H_RIPEMD160,
                    _ => H_HASH160,
                };
                let r = if e.t == tag::PRE && (e.a as usize) < 4 && env.hashkind[e.a as usize] == kind {
                    el(tag::HASH, e.a, 0)
                } else if e.t == tag::KEY && c == op::HASH160 {
                    el(tag::KEYHASH, e.a, 0)
                } else {
                    el(tag::DIGEST, 0, 0)
                };
                self.push(r);
            }
            op::CHECKSIG | op::CHECKSIGVERIFY => {
                let k = self.pop();
                let s = self.pop();
                let r = self.check_sig(s, k, env);
                // NULLFAIL: a failing non-empty signature aborts (handled: non-empty & !r)
                if !r && s.t != tag::EMPTY {
                    self.ok = false;
                }
                if c == op::CHECKSIG {
                    self.push(boolel(r));
                } else if !r {
                    self.ok = false;
                }
            }
            op::CHECKSIGADD => {
                if env.ctx != TAP {
                    self.ok = false;
                    return;
                }
                let k = self.pop();
                let n = self.popnum();
                let s = self.pop();
                let r = self.check_sig(s, k, env);
                if !r && s.t != tag::EMPTY {
                    self.ok = false;
                }
                self.push(num(n + if r { 1 } else { 0 }));
            }
            op::CHECKMULTISIG | op::CHECKMULTISIGVERIFY => {
                if env.ctx == TAP {
                    self.ok = false;
                    return;
                }
                let n = self.popnum();
                if n < 0 || n > MAXKEYS as i64 {
                    if n > MAXKEYS as i64 && n <= 20 {
                        self.overflow = true;
                    }
                    self.ok = false;
                    return;
                }
                let n = n as usize;
                self.ops += n as u32;
                let mut keys = [EMPTY; MAXKEYS];
                let mut i = 0;
                while i < n {
                    keys[i] = self.pop(); // keys[0] = last pushed
                    i += 1;
                }
                let m = self.popnum();
                if m < 0 || m > n as i64 {
                    self.ok = false;
                    return;
                }
                let m = m as usize;
                let mut sigs = [EMPTY; MAXKEYS];
                let mut any_nonempty = false;
                i = 0;
                while i < m {
                    sigs[i] = self.pop(); // sigs[0] = last pushed
                    if sigs[i].t != tag::EMPTY {
                        any_nonempty = true;
                    }
                    i += 1;
                }
                let dummy = self.pop();
                if dummy.t != tag::EMPTY {
                    self.ok = false; // NULLDUMMY
                }
                let mut isig = 0;
                let mut ikey = 0;
                let mut success = true;
                while success && isig < m {
                    if ikey >= n {
                        success = false;
                        break;
                    }
                    let good = self.check_sig(sigs[isig], keys[ikey], env);
                    if good {
                        isig += 1;
                    }
                    ikey += 1;
                    if m - isig > n - ikey {
                        success = false;
                    }
                }
                if !success && any_nonempty {
                    self.ok = false; // NULLFAIL
                }
                if c == op::CHECKMULTISIG {
                    self.push(boolel(success));
                } else if !success {
                    self.ok = false;
                }
            }
            op::CLTV => {
                let e = self.top();
                match as_num(e) {
                    None => self.ok = false,
                    Some(n) => {
                        let lt = env.n_lock_time as i64;
                        if n < 0 || ((n < 500_000_000) != (lt < 500_000_000)) || n > lt || env.n_sequence == 0xffff_ffff {
                            self.ok = false;
                        } else {
                            if (self.t_ncltv as usize) < 2 {
                                self.t_cltv[self.t_ncltv as usize] = n;
                            }
                            self.t_ncltv += 1;
                        }
                    }
                }
            }
            op::CSV => {
                let e = self.top();
                match as_num(e) {
                    None => self.ok = false,
                    Some(n) => {
                        if n < 0 {
                            self.ok = false;
                        } else if n & (1 << 31) == 0 {
                            // transaction version >= 2 is assumed
                            let seq = env.n_sequence as i64;
                            let mask: i64 = 0x0040_ffff;
                            let flag: i64 = 0x0040_0000;
                            let nm = n & mask;
                            let sm = seq & mask;
                            if seq & (1 << 31) != 0 || ((nm < flag) != (sm < flag)) || nm > sm {
                                self.ok = false;
                            } else {
                                if (self.t_ncsv as usize) < 2 {
                                    self.t_csv[self.t_ncsv as usize] = n;
                                }
                                self.t_ncsv += 1;
                            }
                        }
                    }
                }
            }
            _ => self.ok = false,
        }
    }

    /// Run a whole script (constant op list) on the current stack.
    pub fn run(&mut self, ops: &[Op], env: &Env) {
        let mut i = 0;
        while i < ops.len() {
            self.step(ops[i], env);
            i += 1;
        }
        if self.cdepth != 0 {
            self.ok = false; // unbalanced conditional
        }
    }

    /// Final verdict for a complete script: clean stack with a true element.
    pub fn accepted(&self) -> bool { self.ok && self.sp == 1 && truthy(self.st[0]) }
}

/// Load a witness (bottom first) and run.
pub fn run_witness(ops: &[Op], wit: &[El], n: usize, env: &Env) -> Machine {
    let mut m = Machine::new();
    let mut i = 0;
    while i < n {
        m.push(wit[i]);
        i += 1;
    }
    // witness elements are not "pushed during execution"
    m.maxdepth = 0;
    m.run(ops, env);
    m
}

pub fn bip65(t: u32, n_lock_time: u32, n_sequence: u32) -> bool {
    ((t < 500_000_000) == (n_lock_time < 500_000_000)) && t <= n_lock_time && n_sequence != 0xffff_ffff
}
pub fn bip112(t: u32, n_sequence: u32) -> bool {
    let mask = 0x0040_ffffu32;
    let flag = 0x0040_0000u32;
    n_sequence & (1 << 31) == 0 && (((t & mask) < flag) == ((n_sequence & mask) < flag)) && (t & mask) <= (n_sequence & mask)
}
