//! C12 (rule level) — validation parameters form a lattice; range checks accept exactly the
//! specified ranges.  Whole domains.
use miniscript::{AbsLockTime, RelLockTime, ValidationParams};

use crate::{chk, cover, sym};

pub fn any_params() -> ValidationParams {
    let mut p = ValidationParams::MAX;
    p.allow_compressed_keys = sym::bool_();
    p.allow_duplicate_keys = sym::bool_();
    p.allow_dup_if = sym::bool_();
    p.allow_malleability = sym::bool_();
    p.allow_mixed_time_locks = sym::bool_();
    p.allow_multi = sym::bool_();
    p.allow_multi_a = sym::bool_();
    p.allow_or_i = sym::bool_();
    p.allow_raw_pkh = sym::bool_();
    p.allow_sigless_branch = sym::bool_();
    p.allow_non_b = sym::bool_();
    p.allow_uncompressed_keys = sym::bool_();
    p.allow_unsatisfiable = sym::bool_();
    p.allow_x_only_keys = sym::bool_();
    p.allow_inconsistent_multipath_keys = sym::bool_();
    p.max_opcode_count = sym::usize_();
    p.max_script_size = sym::usize_();
    p.max_witness_items = sym::usize_();
    p.max_exec_stack_size = sym::usize_();
    p.max_recursive_depth = sym::usize_();
    p
}

/// componentwise "p is at least as strict as q"
fn leq(p: &ValidationParams, q: &ValidationParams) -> bool {
    (!p.allow_compressed_keys || q.allow_compressed_keys)
        && (!p.allow_duplicate_keys || q.allow_duplicate_keys)
        && (!p.allow_dup_if || q.allow_dup_if)
        && (!p.allow_malleability || q.allow_malleability)
        && (!p.allow_mixed_time_locks || q.allow_mixed_time_locks)
        && (!p.allow_multi || q.allow_multi)
        && (!p.allow_multi_a || q.allow_multi_a)
        && (!p.allow_or_i || q.allow_or_i)
        && (!p.allow_raw_pkh || q.allow_raw_pkh)
        && (!p.allow_sigless_branch || q.allow_sigless_branch)
        && (!p.allow_non_b || q.allow_non_b)
        && (!p.allow_uncompressed_keys || q.allow_uncompressed_keys)
        && (!p.allow_unsatisfiable || q.allow_unsatisfiable)
        && (!p.allow_x_only_keys || q.allow_x_only_keys)
        && (!p.allow_inconsistent_multipath_keys || q.allow_inconsistent_multipath_keys)
        && p.max_opcode_count <= q.max_opcode_count
        && p.max_script_size <= q.max_script_size
        && p.max_witness_items <= q.max_witness_items
        && p.max_exec_stack_size <= q.max_exec_stack_size
        && p.max_recursive_depth <= q.max_recursive_depth
}

/// intersect is the greatest lower bound; entails is the componentwise order.
#[cfg_attr(kani, kani::proof)]
pub fn c12_params_lattice() {
    let p = any_params();
    let q = any_params();
    let i = p.intersect(&q);
    chk!(leq(&i, &p) && leq(&i, &q), "intersect must be at least as strict as both arguments in every component");
    let r = any_params();
    if leq(&r, &p) && leq(&r, &q) {
        chk!(leq(&r, &i), "intersect must be the greatest lower bound");
    }
    chk!(p.entails(&q) == leq(&p, &q), "entails must be the componentwise order (tightening never admits more)");
    chk!(p.eq(&q) == (leq(&p, &q) && leq(&q, &p)), "eq must compare every component");
    chk!(p.intersect(&p).eq(&p), "intersect idempotent");
    chk!(p.intersect(&q).eq(&q.intersect(&p)), "intersect commutative");
    cover!(p.entails(&q) && !p.eq(&q), "strict entailment");
    cover!(!p.entails(&q) && !q.entails(&p), "incomparable");
}

/// The documented relations between the stock parameter sets.
#[cfg_attr(kani, kani::proof)]
pub fn c12_params_constants() {
    use miniscript::{BareCtx, Legacy, ScriptContext, Segwitv0, Tap};
    let (max, sane, cons) = (ValidationParams::MAX, ValidationParams::SANE, ValidationParams::CONSENSUS);
    chk!(leq(&sane, &cons) && leq(&cons, &max), "SANE entails CONSENSUS entails MAX");
    chk!(sane.entails(&cons) && cons.entails(&max), "entails agrees on the stock sets");
    chk!(!cons.allow_non_b && !sane.allow_non_b, "CONSENSUS and SANE require a B-typed top level");
    chk!(!sane.allow_duplicate_keys && !sane.allow_malleability && !sane.allow_mixed_time_locks && !sane.allow_raw_pkh && !sane.allow_sigless_branch, "SANE switches");
    // per-context: SANE entails CONSENSUS; limits are the consensus / standardness numbers
    chk!(leq(&Segwitv0::SANE, &Segwitv0::CONSENSUS) && leq(&Legacy::SANE, &Legacy::CONSENSUS) && leq(&BareCtx::SANE, &BareCtx::CONSENSUS) && leq(&Tap::SANE, &Tap::CONSENSUS), "Ctx::SANE entails Ctx::CONSENSUS");
    chk!(leq(&Segwitv0::SANE, &sane) && leq(&Legacy::SANE, &sane) && leq(&BareCtx::SANE, &sane) && leq(&Tap::SANE, &sane), "Ctx::SANE entails SANE");
    chk!(leq(&Segwitv0::CONSENSUS, &cons) && leq(&Legacy::CONSENSUS, &cons) && leq(&BareCtx::CONSENSUS, &cons) && leq(&Tap::CONSENSUS, &cons), "Ctx::CONSENSUS entails CONSENSUS");
    chk!(Segwitv0::CONSENSUS.max_opcode_count == 201 && Legacy::CONSENSUS.max_opcode_count == 201 && BareCtx::CONSENSUS.max_opcode_count == 201, "201-opcode consensus limit");
    chk!(Segwitv0::SANE.max_opcode_count <= 201 && Legacy::SANE.max_opcode_count <= 201 && BareCtx::SANE.max_opcode_count <= 201, "201-opcode limit survives in SANE");
    chk!(Legacy::CONSENSUS.max_script_size == 520 && BareCtx::CONSENSUS.max_script_size <= 10_000, "script size consensus limits");
    chk!(Segwitv0::SANE.max_script_size <= 3600 && Legacy::SANE.max_script_size <= 520, "script size standardness limits");
    chk!(Segwitv0::SANE.max_witness_items <= 100, "P2WSH standard witness item limit");
    chk!(!Segwitv0::CONSENSUS.allow_uncompressed_keys && !Segwitv0::CONSENSUS.allow_x_only_keys && !Segwitv0::CONSENSUS.allow_multi_a, "segwit v0 key / multisig flavour");
    chk!(!Tap::CONSENSUS.allow_multi && !Tap::CONSENSUS.allow_uncompressed_keys, "tapscript key / multisig flavour");
    chk!(!Legacy::CONSENSUS.allow_multi_a && !Legacy::CONSENSUS.allow_x_only_keys && !BareCtx::CONSENSUS.allow_multi_a && !BareCtx::CONSENSUS.allow_x_only_keys, "pre-segwit key / multisig flavour");
    cover!(true, "reached");
}

/// Lock-time constructors accept exactly the ranges of the specification.
#[cfg_attr(kani, kani::proof)]
pub fn c12_locktime_ranges() {
    let n = sym::u32_();
    chk!(AbsLockTime::from_consensus(n).is_ok() == (n >= 1 && n < 0x8000_0000), "after(n): 1 <= n < 2^31");
    chk!(RelLockTime::from_consensus(n).is_ok() == (n >= 1 && n < 0x8000_0000), "older(n): 1 <= n < 2^31");
    if let Ok(t) = AbsLockTime::from_consensus(n) {
        chk!(t.to_consensus_u32() == n, "AbsLockTime round trip");
        chk!(t.is_block_height() == (n < 500_000_000) && t.is_block_time() == (n >= 500_000_000), "absolute unit");
    }
    if let Ok(t) = RelLockTime::from_consensus(n) {
        chk!(t.to_consensus_u32() == n, "RelLockTime round trip");
        chk!(t.is_time_locked() == (n & 0x0040_0000 != 0) && t.is_height_locked() == (n & 0x0040_0000 == 0), "relative unit");
    }
    cover!(AbsLockTime::from_consensus(n).is_err(), "rejected");
}

/// Threshold range check for every (k, n) and the three maxima in use.
#[cfg_attr(kani, kani::proof)]
pub fn c12_threshold_ranges() {
    use miniscript::Threshold;
    let (k, n) = (sym::usize_(), sym::usize_());
    sym::assume(n <= 4);
    let mk = |n: usize| {
        let mut v: Vec<u8> = Vec::new();
        let mut i = 0;
        while i < 4 {
            if i < n {
                v.push(i as u8);
            }
            i += 1;
        }
        v
    };
    let r0 = Threshold::<u8, 0>::new(k, mk(n));
    chk!(r0.is_ok() == (k >= 1 && k <= n), "threshold accepts exactly 1 <= k <= n");
    let r3 = Threshold::<u8, 3>::new(k, mk(n));
    chk!(r3.is_ok() == (k >= 1 && k <= n && n <= 3), "bounded threshold accepts exactly 1 <= k <= n <= MAX");
    if let Ok(t) = r0 {
        chk!(t.k() == k && t.n() == n, "threshold keeps k and n");
        core::mem::forget(t);
    }
    cover!(k > n, "k > n rejected");
    cover!(k == 0, "k = 0 rejected");
}

// ---- mixed-time-lock bookkeeping of the fragment combinators (real ExtData rules) ----------

use miniscript::miniscript::types::extra_props::{ExtData, SatData, TimelockInfo};
use miniscript::verif_hooks as hk;

fn any_tl() -> TimelockInfo {
    TimelockInfo { csv_with_height: sym::bool_(), csv_with_time: sym::bool_(), cltv_with_height: sym::bool_(), cltv_with_time: sym::bool_(), contains_combination: sym::bool_() }
}
fn any_sat() -> Option<SatData> {
    if sym::bool_() {
        let v = sym::u8_() as usize;
        Some(SatData { max_witness_stack_size: v, max_witness_stack_count: v, max_script_sig_size: v, max_exec_stack_count: v, max_exec_op_count: v })
    } else {
        None
    }
}
fn any_ext() -> ExtData {
    ExtData {
        pk_cost: sym::u8_() as usize,
        has_free_verify: sym::bool_(),
        static_ops: sym::u8_() as usize,
        sat_data: any_sat(),
        dissat_data: any_sat(),
        timelock_info: any_tl(),
        tree_height: sym::u8_() as usize,
    }
}

/// Which children can be satisfied together on one path decides where a height/time
/// conflict is an unspendable path: and_*(X,Y): X with Y; or_*(X,Z): never together;
/// andor(X,Y,Z): X with Y only (Z runs when X is dissatisfied); wrappers: unchanged.
#[cfg_attr(kani, kani::proof)]
pub fn c12_timelock_rules() {
    let (a, b, c) = (any_ext(), any_ext(), any_ext());
    let and = hk::timelock_combine_and(a.timelock_info, b.timelock_info);
    let or = hk::timelock_combine_or(a.timelock_info, b.timelock_info);
    chk!(ExtData::and_b(a, b).timelock_info == and, "and_b: children are satisfied together");
    chk!(ExtData::and_v(a, b).timelock_info == and, "and_v: children are satisfied together");
    chk!(ExtData::or_b(a, b).timelock_info == or, "or_b: children are alternatives");
    chk!(ExtData::or_c(a, b).timelock_info == or, "or_c: children are alternatives");
    chk!(ExtData::or_d(a, b).timelock_info == or, "or_d: children are alternatives");
    chk!(ExtData::or_i(a, b).timelock_info == or, "or_i: children are alternatives");
    chk!(ExtData::and_or(a, b, c).timelock_info == hk::timelock_combine_or(and, c.timelock_info), "andor(X,Y,Z): X is satisfied together with Y, never with Z");
    chk!(ExtData::cast_alt(a).timelock_info == a.timelock_info && ExtData::cast_swap(a).timelock_info == a.timelock_info && ExtData::cast_check(a).timelock_info == a.timelock_info, "a:/s:/c: keep time-lock info");
    chk!(ExtData::cast_dupif(a).timelock_info == a.timelock_info && ExtData::cast_verify(a).timelock_info == a.timelock_info, "d:/v: keep time-lock info");
    chk!(ExtData::cast_nonzero(a).timelock_info == a.timelock_info && ExtData::cast_zeronotequal(a).timelock_info == a.timelock_info, "j:/n: keep time-lock info");
    cover!(and.contains_combination && !or.contains_combination, "and conflicts where or does not");
}

/// Nesting depth bookkeeping of every combinator (the figure the depth limit of `validate` and of
/// the parsers is applied to): one more than the deepest child, for arbitrary child figures.
#[cfg_attr(kani, kani::proof)]
pub fn c12_tree_height_rules() {
    let (a, b, c) = (any_ext(), any_ext(), any_ext());
    let m2 = if a.tree_height > b.tree_height { a.tree_height } else { b.tree_height };
    let m3 = if m2 > c.tree_height { m2 } else { c.tree_height };
    chk!(ExtData::and_b(a, b).tree_height == m2 + 1 && ExtData::and_v(a, b).tree_height == m2 + 1, "and_b / and_v: depth is one more than the deeper child");
    chk!(ExtData::or_b(a, b).tree_height == m2 + 1 && ExtData::or_c(a, b).tree_height == m2 + 1 && ExtData::or_d(a, b).tree_height == m2 + 1 && ExtData::or_i(a, b).tree_height == m2 + 1, "or_b / or_c / or_d / or_i: depth is one more than the deeper child");
    chk!(ExtData::and_or(a, b, c).tree_height == m3 + 1, "andor: depth is one more than the deepest child");
    chk!(
        ExtData::cast_alt(a).tree_height == a.tree_height + 1
            && ExtData::cast_swap(a).tree_height == a.tree_height + 1
            && ExtData::cast_check(a).tree_height == a.tree_height + 1
            && ExtData::cast_dupif(a).tree_height == a.tree_height + 1
            && ExtData::cast_verify(a).tree_height == a.tree_height + 1
            && ExtData::cast_nonzero(a).tree_height == a.tree_height + 1
            && ExtData::cast_zeronotequal(a).tree_height == a.tree_height + 1,
        "wrappers: depth is one more than the child",
    );
    let xs = [a, b, c];
    let k = sym::usize_();
    sym::assume(k >= 1 && k <= 3);
    chk!(ExtData::threshold(k, 3, |i| xs[i]).tree_height == m3 + 1, "thresh: depth is one more than the deepest child");
    chk!(ExtData::TRUE.tree_height == 0 && ExtData::FALSE.tree_height == 0, "leaves have depth 0");
    cover!(a.tree_height > b.tree_height, "left child deeper");
    cover!(a.tree_height < b.tree_height, "right child deeper");
}

// ---- who accepts what (generated cases; library parsers / constructors ran natively) -------

use crate::shape::{Shape, World, MAXW, W_STACK};
use crate::vm::{self, tag, El, Machine};

pub struct Acc {
    pub shape: &'static Shape,
    pub entries: &'static [(&'static str, bool)],
    pub desc_parser_ok: bool,
    pub ms_consensus_parser_ok: bool,
    pub consensus_reject_if: bool,
    pub sigless_rejected: bool,
    pub limits: &'static [(u8, u32, bool, u32)],
    pub dup_expected: bool,
    pub dup_rejected: bool,
    /// Bare context: the term is NOT one of the standard bare forms (pk, pkh, multisig of <= 3 keys)
    pub bare_nonstandard: bool,
}

#[cfg(not(kani))]
fn note_acc(a: &Acc) { eprintln!("  term {}", a.shape.name); }
#[cfg(kani)]
fn note_acc(_: &Acc) {}

pub fn acc(a: &Acc) {
    note_acc(a);
    let sh = a.shape;
    let is_b = sh.ty.base == crate::spec::B;
    cover!(true, "case evaluated");
    // (1) every parser / constructor / consensus-or-sane validation only accepts complete boolean scripts
    let mut i = 0;
    while i < a.entries.len() {
        if a.entries[i].1 {
            chk!(is_b, "a parser or constructor accepts a top-level expression that is not of type B");
        }
        i += 1;
    }
    // (1b) bare descriptors only wrap the standard bare forms
    if sh.ctx == vm::BARE && a.bare_nonstandard {
        let mut i = 0;
        while i < a.entries.len() {
            let n = a.entries[i].0.as_bytes();
            // "Bare::new", "Descriptor::new_bare", "Descriptor::from_str(bare)"
            let wrapper = n.len() >= 4 && (n[0] == b'B' || (n.len() > 16 && n[12] == b'n' && n[16] == b'b') || (n.len() > 21 && n[21] == b'b'));
            if wrapper && a.entries[i].1 {
                chk!(false, "a bare descriptor wrapper accepts a script that is not a standard bare form (pk, pkh, multisig of at most 3 keys)");
            }
            i += 1;
        }
    }
    // (2) what the descriptor parser accepts, the miniscript parser with consensus parameters accepts
    if a.desc_parser_ok && !a.ms_consensus_parser_ok {
        if a.consensus_reject_if && (sh.ctx == vm::LEGACY || sh.ctx == vm::BARE) {
            chk!(false, "descriptor parser accepts or_i / d: in a pre-segwit context although that context's consensus parameters forbid them");
        } else {
            chk!(false, "descriptor parser accepts a script the miniscript parser with consensus parameters rejects");
        }
    }
    // (3) limit switches reject exactly above the script's own figure
    let mut i = 0;
    while i < a.limits.len() {
        let (_, limit, ok, fig) = a.limits[i];
        chk!(ok == (fig <= limit), "a size / opcode / witness limit does not reject exactly the scripts above it");
        i += 1;
    }
    // (4) duplicate-key switch
    if a.dup_expected {
        chk!(a.dup_rejected, "duplicate keys are not rejected with allow_duplicate_keys = false");
    }
    // (5) signature-less-branch switch, behaviourally (B-typed complete scripts)
    if is_b {
        if a.sigless_rejected {
            // the library's own malleable satisfaction without any signature is the witness (C01 executes it)
            let mut found = false;
            let mut r = 0;
            while r < sh.rows.len() {
                if sh.rows[r].sigs == 0 && sh.rows[r].sat_m_k == W_STACK {
                    found = true;
                }
                r += 1;
            }
            chk!(found || !sh.satisfiable, "sigless-branch switch rejects a script that has no signature-free satisfaction");
        } else {
            // accepted: no signature-free witness may succeed, for any lock values
            let wd = World { sigs: 0, pres: (1u8 << sh.nhash) - 1, n_lock_time: sym::u32_(), n_sequence: sym::u32_() };
            let env = sh.env(&wd);
            let mut m = Machine::new();
            let n = sym::u8_() as usize;
            let depth = if (sh.fig.sat_stack_count as usize) < MAXW { sh.fig.sat_stack_count as usize + 1 } else { MAXW };
            sym::assume(n <= depth);
            let mut j = 0;
            while j < MAXW {
                if j < depth {
                    let e: El = crate::shape::any_el(sh);
                    sym::assume(!(e.t == tag::SIG && e.n == 1));
                    if j < n {
                        m.st[j] = e;
                    }
                }
                j += 1;
            }
            m.sp = n;
            m.run(sh.ops, &env);
            chk!(!m.accepted(), "script passes the sigless-branch switch but a signature-free witness is accepted");
            let _ = vm::EMPTY;
        }
    }
}

// ---- resource limits of the four script contexts (real check_* functions, whole domains) -------
//
// A node with fully symbolic static figures is offered to the context's four limit checks; the
// reference is the limit itself, written here from Bitcoin Core's consensus / standardness
// constants: P2SH redeem script <= 520 bytes, script <= 10000 bytes, <= 201 non-push opcodes,
// standard scriptSig <= 1650 bytes, standard P2WSH script <= 3600 bytes and <= 100 witness stack
// items (the script itself is one of them), stack + altstack <= 1000 elements, tapscript bounded
// by the block weight only.

use miniscript::{BareCtx, Legacy, Miniscript, ScriptContext, Segwitv0, Tap, Terminal};
type LPk = miniscript::bitcoin::PublicKey;

fn any_sat_wide() -> Option<SatData> {
    if sym::bool_() {
        Some(SatData {
            max_witness_stack_size: sym::u32_() as usize,
            max_witness_stack_count: sym::u32_() as usize,
            max_script_sig_size: sym::u32_() as usize,
            max_exec_stack_count: sym::u32_() as usize,
            max_exec_op_count: sym::u32_() as usize,
        })
    } else {
        None
    }
}
fn any_ext_wide() -> ExtData {
    ExtData { pk_cost: sym::u32_() as usize, has_free_verify: sym::bool_(), static_ops: sym::u32_() as usize, sat_data: any_sat_wide(), dissat_data: any_sat_wide(), timelock_info: any_tl(), tree_height: sym::u8_() as usize }
}

fn limits<Ctx: ScriptContext>() -> (ExtData, [bool; 4]) {
    let ext = any_ext_wide();
    let ms: Miniscript<LPk, Ctx> = Miniscript::from_components_unchecked(Terminal::True, miniscript::miniscript::types::Type::TRUE, ext);
    let r = [
        Ctx::check_global_consensus_validity(&ms).is_ok(),
        Ctx::check_local_consensus_validity(&ms).is_ok(),
        Ctx::check_global_policy_validity(&ms).is_ok(),
        Ctx::check_local_policy_validity(&ms).is_ok(),
    ];
    core::mem::forget(ms);
    (ext, r)
}

fn ops_ok(e: &ExtData) -> bool {
    match e.sat_data {
        None => false,
        Some(d) => e.static_ops + d.max_exec_op_count <= 201,
    }
}

// @h c12_ctx_limits_* timeout=900 mem=8
#[cfg_attr(kani, kani::proof)]
pub fn c12_ctx_limits_legacy() {
    let (e, r) = limits::<Legacy>();
    chk!(r[0] == (e.pk_cost <= 520), "Legacy: a redeem script is accepted exactly up to 520 bytes");
    chk!(r[1] == ops_ok(&e), "Legacy: accepted exactly when satisfiable with at most 201 opcodes");
    chk!(r[2], "Legacy: no global policy limit");
    chk!(r[3] == matches!(e.sat_data, Some(d) if d.max_script_sig_size <= 1650), "Legacy: accepted exactly when the worst-case scriptSig is at most 1650 bytes");
    cover!(!r[3] && e.sat_data.is_some(), "scriptSig too large");
    cover!(r[3], "scriptSig within limit");
}

#[cfg_attr(kani, kani::proof)]
pub fn c12_ctx_limits_segwitv0() {
    let (e, r) = limits::<Segwitv0>();
    chk!(r[0] == (e.pk_cost <= 10_000), "Segwitv0: a witness script is consensus-valid exactly up to 10000 bytes");
    chk!(r[1] == ops_ok(&e), "Segwitv0: accepted exactly when satisfiable with at most 201 opcodes");
    chk!(r[2] == (e.pk_cost <= 3_600), "Segwitv0: a witness script is standard exactly up to 3600 bytes");
    chk!(r[3] == matches!(e.sat_data, Some(d) if d.max_witness_stack_count + 1 <= 100), "Segwitv0: standard exactly when the witness has at most 100 items including the script");
    cover!(!r[3] && e.sat_data.is_some(), "too many witness items");
    cover!(r[0] && !r[2], "consensus-valid but non-standard size");
}

#[cfg_attr(kani, kani::proof)]
pub fn c12_ctx_limits_tap() {
    let (e, r) = limits::<Tap>();
    chk!(r[0] == (e.pk_cost <= 4_000_000), "Tap: a leaf script is bounded by the block weight only");
    chk!(r[1] == match e.sat_data { None => true, Some(d) => d.max_witness_stack_count + d.max_exec_stack_count <= 1000 }, "Tap: accepted exactly when initial stack plus execution stack stays within 1000 elements");
    chk!(r[2] && r[3], "Tap: no script-level policy limits");
    cover!(!r[1], "stack limit exceeded");
}

#[cfg_attr(kani, kani::proof)]
pub fn c12_ctx_limits_bare() {
    let (e, r) = limits::<BareCtx>();
    chk!(r[0] == (e.pk_cost <= 10_000), "Bare: a script is consensus-valid exactly up to 10000 bytes");
    chk!(r[1] == ops_ok(&e), "Bare: accepted exactly when satisfiable with at most 201 opcodes");
    chk!(r[2] && r[3], "Bare: no further limits at this level");
    cover!(!r[1] && e.sat_data.is_some(), "too many opcodes");
}
