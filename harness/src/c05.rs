//! C05 — fragment typing equals the specification tables (R-harnesses,
//! whole finite domain: every child is an arbitrary `Type`, 80 x 12 values).

use miniscript::miniscript::types::{Base, Correctness, Dissat, ErrorKind, Input, Malleability, Type};

use crate::spec::{self, S};
use crate::sym;
use crate::{chk, cover};

pub fn any_base() -> Base {
    match sym::below(4) {
        0 => Base::B,
        1 => Base::V,
        2 => Base::K,
        _ => Base::W,
    }
}
pub fn any_input() -> Input {
    match sym::below(5) {
        0 => Input::Zero,
        1 => Input::One,
        2 => Input::Any,
        3 => Input::OneNonZero,
        _ => Input::AnyNonZero,
    }
}
pub fn any_dissat() -> Dissat {
    match sym::below(3) {
        0 => Dissat::None,
        1 => Dissat::Unique,
        _ => Dissat::Unknown,
    }
}
/// An arbitrary value of the library's `Type` (all 960 of them).
pub fn any_type() -> Type {
    Type {
        corr: Correctness {
            base: any_base(),
            input: any_input(),
            dissatisfiable: sym::bool_(),
            unit: sym::bool_(),
        },
        mall: Malleability { dissat: any_dissat(), signed: sym::bool_(), non_malleable: sym::bool_() },
    }
}

/// Which relaxation of "equal to the specification" is allowed (DESIGN §5 C05).
#[derive(Copy, Clone, PartialEq, Eq)]
pub enum Dev {
    /// none: equal on invariant-respecting children, `lib ⊑ spec` everywhere
    None,
    /// `c:` — the library copies `z` from its (unreachable) `K z` child:
    /// `⊑` is only demanded on invariant-respecting children
    CheckCopiesZ,
    /// `thresh` — library additionally demands all children `e` for `e`
    ThreshE,
}

/// The C05 obligation for one rule application.
pub fn obligation(lib: Result<Type, ErrorKind>, spec: Option<S>, children_inv: bool, dev: Dev) {
    cover!(lib.is_ok(), "rule accepts some child types");
    cover!(lib.is_err(), "rule rejects some child types");
    cover!(lib.is_ok() && children_inv, "rule accepts invariant-respecting child types");
    match (lib, spec) {
        (Ok(t), Some(s)) => {
            let l = spec::of_type(t);
            if dev != Dev::CheckCopiesZ || children_inv {
                chk!(l.base == s.base, "base type equals the specification's");
                chk!(!l.z || s.z, "z claimed but not granted by the specification");
                chk!(!l.o || s.o, "o claimed but not granted by the specification");
                chk!(!l.n || s.n, "n claimed but not granted by the specification");
                chk!(!l.d || s.d, "d claimed but not granted by the specification");
                chk!(!l.u || s.u, "u claimed but not granted by the specification");
                chk!(!l.f || s.f, "f claimed but not granted by the specification");
                chk!(!l.e || s.e, "e claimed but not granted by the specification");
                chk!(!l.s || s.s, "s claimed but not granted by the specification");
                chk!(!l.m || s.m, "m claimed but not granted by the specification");
            }
            if children_inv {
                let mut s2 = s;
                if dev == Dev::ThreshE {
                    s2.e = l.e;
                }
                chk!(l == s2, "type differs from the specification (weaker than specified)");
            }
        }
        (Err(_), None) => {}
        (Ok(_), None) => chk!(false, "library accepts child types the specification rejects"),
        (Err(_), Some(_)) => chk!(false, "library rejects child types the specification accepts"),
    }
}

fn s(t: Type) -> S { spec::of_type(t) }

macro_rules! unary {
    ($name:ident, $lib:expr, $spec:expr, $dev:expr) => {
        // @harness prop=C05 tier=quick
        #[cfg_attr(kani, kani::proof)]
        pub fn $name() {
            let x = any_type();
            obligation($lib(x), ($spec)(s(x)), spec::inv(x), $dev);
        }
    };
}
macro_rules! binary {
    ($name:ident, $lib:expr, $spec:expr) => {
        // @harness prop=C05 tier=quick
        #[cfg_attr(kani, kani::proof)]
        pub fn $name() {
            let x = any_type();
            let y = any_type();
            obligation($lib(x, y), $spec(s(x), s(y)), spec::inv(x) && spec::inv(y), Dev::None);
        }
    };
}

unary!(c05_alt, Type::cast_alt, spec::alt, Dev::None);
unary!(c05_swap, Type::cast_swap, spec::swap, Dev::None);
unary!(c05_check, Type::cast_check, spec::check, Dev::CheckCopiesZ);
unary!(c05_dupif, Type::cast_dupif, |x: S| spec::dupif(x, false), Dev::None);
unary!(c05_verify, Type::cast_verify, spec::verify, Dev::None);
unary!(c05_nonzero, Type::cast_nonzero, spec::nonzero, Dev::None);
unary!(c05_zeronotequal, Type::cast_zeronotequal, spec::zeronotequal, Dev::None);
unary!(c05_true, Type::cast_true, spec::true_, Dev::None);
unary!(c05_likely, Type::cast_likely, spec::likely, Dev::None);
unary!(c05_unlikely, Type::cast_unlikely, spec::unlikely, Dev::None);

binary!(c05_and_b, Type::and_b, spec::and_b);
binary!(c05_and_v, Type::and_v, spec::and_v);
binary!(c05_or_b, Type::or_b, spec::or_b);
binary!(c05_or_c, Type::or_c, spec::or_c);
binary!(c05_or_d, Type::or_d, spec::or_d);
binary!(c05_or_i, Type::or_i, spec::or_i);

// @harness prop=C05 tier=quick
#[cfg_attr(kani, kani::proof)]
pub fn c05_andor() {
    let x = any_type();
    let y = any_type();
    let z = any_type();
    obligation(
        Type::and_or(x, y, z),
        spec::andor(s(x), s(y), s(z)),
        spec::inv(x) && spec::inv(y) && spec::inv(z),
        Dev::None,
    );
}

/// d: in Tapscript — the library never claims more than the Tapscript row either.
// @harness prop=C05 tier=quick
#[cfg_attr(kani, kani::proof)]
pub fn c05_dupif_tap_leq() {
    let x = any_type();
    if let (Ok(t), Some(sp)) = (Type::cast_dupif(x), spec::dupif(s(x), true)) {
        cover!(true, "d: accepted");
        chk!(spec::of_type(t).leq(&sp), "d: claims more than the Tapscript row grants");
    }
}

// @harness prop=C05 tier=quick
#[cfg_attr(kani, kani::proof)]
pub fn c05_leaves() {
    let eq = |t: Type, sp: S| spec::of_type(t) == sp;
    chk!(eq(Type::TRUE, spec::one()), "type of 1");
    chk!(eq(Type::FALSE, spec::zero()), "type of 0");
    chk!(eq(Type::pk_k(), spec::pk_k()), "type of pk_k");
    chk!(eq(Type::pk_h(), spec::pk_h()), "type of pk_h");
    chk!(eq(Type::multi(), spec::multi()), "type of multi");
    chk!(eq(Type::sortedmulti(), spec::multi()), "type of sortedmulti");
    chk!(eq(Type::multi_a(), spec::multi_a()), "type of multi_a");
    chk!(eq(Type::sortedmulti_a(), spec::multi_a()), "type of sortedmulti_a");
    chk!(eq(Type::hash(), spec::hash()), "type of hash fragments");
    chk!(eq(Type::time(), spec::time()), "type of after/older");
    chk!(
        spec::inv(Type::TRUE)
            && spec::inv(Type::FALSE)
            && spec::inv(Type::pk_k())
            && spec::inv(Type::pk_h())
            && spec::inv(Type::multi())
            && spec::inv(Type::sortedmulti())
            && spec::inv(Type::multi_a())
            && spec::inv(Type::sortedmulti_a())
            && spec::inv(Type::hash())
            && spec::inv(Type::time()),
        "leaf types satisfy the type-system invariant",
    );
    cover!(true, "reached");
}

fn thresh_n<const N: usize>() {
    let mut ts = [Type::TRUE; N];
    let mut ss = [spec::one(); N];
    let mut all_inv = true;
    let mut i = 0;
    while i < N {
        ts[i] = any_type();
        ss[i] = s(ts[i]);
        all_inv &= spec::inv(ts[i]);
        i += 1;
    }
    let k = sym::usize_();
    sym::assume(k >= 1 && k <= N);
    let lib = Type::threshold(k, ts.iter());
    let sp = spec::thresh(k, &ss);
    obligation(lib, sp, all_inv, Dev::ThreshE);
    if let (Ok(t), true) = (lib, all_inv) {
        chk!(spec::inv(t), "thresh preserves the type-system invariant");
        let l = spec::of_type(t);
        cover!(l.s && !l.e, "thresh: s without e");
        cover!(l.m, "thresh: m");
        cover!(!l.m && l.e, "thresh: e without m");
    }
}

// @harness prop=C05 tier=quick unwind=4
#[cfg_attr(kani, kani::proof)]
#[cfg_attr(kani, kani::unwind(4))]
pub fn c05_thresh_1() { thresh_n::<1>() }
// @harness prop=C05 tier=quick
#[cfg_attr(kani, kani::proof)]
#[cfg_attr(kani, kani::unwind(4))]
pub fn c05_thresh_2() { thresh_n::<2>() }
// @harness prop=C05 tier=quick
#[cfg_attr(kani, kani::proof)]
#[cfg_attr(kani, kani::unwind(5))]
pub fn c05_thresh_3() { thresh_n::<3>() }
// @harness prop=C05 tier=quick
#[cfg_attr(kani, kani::proof)]
#[cfg_attr(kani, kani::unwind(6))]
pub fn c05_thresh_4() { thresh_n::<4>() }
// @harness prop=C05 tier=thorough
#[cfg_attr(kani, kani::proof)]
#[cfg_attr(kani, kani::unwind(7))]
pub fn c05_thresh_5() { thresh_n::<5>() }
// @harness prop=C05 tier=thorough
#[cfg_attr(kani, kani::proof)]
#[cfg_attr(kani, kani::unwind(8))]
pub fn c05_thresh_6() { thresh_n::<6>() }

// ---- invariant preservation (justifies restricting equality to inv children) ----

macro_rules! inv1 {
    ($name:ident, $lib:expr) => {
        // @harness prop=C05 tier=quick
        #[cfg_attr(kani, kani::proof)]
        pub fn $name() {
            let x = any_type();
            sym::assume(spec::inv(x));
            if let Ok(t) = $lib(x) {
                cover!(true, "accepted");
                chk!(spec::inv(t), "rule preserves the type-system invariant");
            }
        }
    };
}
macro_rules! inv2 {
    ($name:ident, $lib:expr) => {
        // @harness prop=C05 tier=quick
        #[cfg_attr(kani, kani::proof)]
        pub fn $name() {
            let x = any_type();
            let y = any_type();
            sym::assume(spec::inv(x) && spec::inv(y));
            if let Ok(t) = $lib(x, y) {
                cover!(true, "accepted");
                chk!(spec::inv(t), "rule preserves the type-system invariant");
            }
        }
    };
}
inv1!(c05_inv_alt, Type::cast_alt);
inv1!(c05_inv_swap, Type::cast_swap);
inv1!(c05_inv_check, Type::cast_check);
inv1!(c05_inv_dupif, Type::cast_dupif);
inv1!(c05_inv_verify, Type::cast_verify);
inv1!(c05_inv_nonzero, Type::cast_nonzero);
inv1!(c05_inv_zeronotequal, Type::cast_zeronotequal);
inv1!(c05_inv_true, Type::cast_true);
inv1!(c05_inv_likely, Type::cast_likely);
inv1!(c05_inv_unlikely, Type::cast_unlikely);
inv2!(c05_inv_and_b, Type::and_b);
inv2!(c05_inv_and_v, Type::and_v);
inv2!(c05_inv_or_b, Type::or_b);
inv2!(c05_inv_or_c, Type::or_c);
inv2!(c05_inv_or_d, Type::or_d);
inv2!(c05_inv_or_i, Type::or_i);
// @harness prop=C05 tier=quick
#[cfg_attr(kani, kani::proof)]
pub fn c05_inv_andor() {
    let x = any_type();
    let y = any_type();
    let z = any_type();
    sym::assume(spec::inv(x) && spec::inv(y) && spec::inv(z));
    if let Ok(t) = Type::and_or(x, y, z) {
        cover!(true, "accepted");
        chk!(spec::inv(t), "rule preserves the type-system invariant");
    }
}

/// Dispatch: `Type::type_check` sends every leaf fragment to its own rule (the rule functions are
/// compared with the specification above; a slip in the `match` of `type_check` is not a rule
/// change and would otherwise only show behaviourally, in C06).
// @h c05_dispatch_leaves timeout=1200 mem=8
#[cfg_attr(kani, kani::proof)]
#[cfg_attr(kani, kani::unwind(6))]
pub fn c05_dispatch_leaves() {
    use miniscript::bitcoin::hashes::Hash;
    use miniscript::{AbsLockTime, RelLockTime, Segwitv0, Tap, Terminal, Threshold};
    type Pk = miniscript::bitcoin::PublicKey;
    let raw = unsafe { miniscript::bitcoin::secp256k1::ffi::PublicKey::from_array_unchecked([7u8; 64]) };
    let pk = miniscript::bitcoin::PublicKey::new(miniscript::bitcoin::secp256k1::PublicKey::from(raw));
    fn same<Ctx: miniscript::ScriptContext>(t: &Terminal<Pk, Ctx>, want: Type) -> bool {
        match Type::type_check(t) {
            Ok(ty) => ty == want,
            Err(e) => {
                core::mem::forget(e);
                false
            }
        }
    }
    let h160 = miniscript::bitcoin::hashes::hash160::Hash::from_byte_array([1u8; 20]);
    let sha = miniscript::bitcoin::hashes::sha256::Hash::from_byte_array([2u8; 32]);
    let t: Terminal<Pk, Segwitv0> = Terminal::True;
    chk!(same(&t, Type::TRUE), "type_check(1) is the rule for 1");
    let t: Terminal<Pk, Segwitv0> = Terminal::False;
    chk!(same(&t, Type::FALSE), "type_check(0) is the rule for 0");
    let t: Terminal<Pk, Segwitv0> = Terminal::PkK(pk);
    chk!(same(&t, Type::pk_k()), "type_check(pk_k) is the rule for pk_k");
    let t: Terminal<Pk, Segwitv0> = Terminal::PkH(pk);
    chk!(same(&t, Type::pk_h()), "type_check(pk_h) is the rule for pk_h");
    let t: Terminal<Pk, Segwitv0> = Terminal::RawPkH(h160);
    chk!(same(&t, Type::pk_h()), "type_check(raw pk_h) is the rule for pk_h");
    if let Ok(l) = AbsLockTime::from_consensus(sym::u32_()) {
        let t: Terminal<Pk, Segwitv0> = Terminal::After(l);
        chk!(same(&t, Type::time()), "type_check(after) is the rule for time locks");
    }
    if let Ok(l) = RelLockTime::from_consensus(sym::u32_()) {
        let t: Terminal<Pk, Segwitv0> = Terminal::Older(l);
        chk!(same(&t, Type::time()), "type_check(older) is the rule for time locks");
    }
    let t: Terminal<Pk, Segwitv0> = Terminal::Sha256(sha);
    chk!(same(&t, Type::hash()), "type_check(sha256) is the rule for hashes");
    let t: Terminal<Pk, Segwitv0> = Terminal::Hash160(h160);
    chk!(same(&t, Type::hash()), "type_check(hash160) is the rule for hashes");
    if let Ok(th) = Threshold::new(1, vec![pk, pk]) {
        let t: Terminal<Pk, Segwitv0> = Terminal::Multi(th);
        chk!(same(&t, Type::multi()), "type_check(multi) is the rule for multi");
        core::mem::forget(t);
    }
    if let Ok(th) = Threshold::new(1, vec![pk, pk]) {
        let t: Terminal<Pk, Segwitv0> = Terminal::SortedMulti(th);
        chk!(same(&t, Type::sortedmulti()), "type_check(sortedmulti) is the rule for sortedmulti");
        core::mem::forget(t);
    }
    if let Ok(th) = Threshold::new(1, vec![pk, pk]) {
        let t: Terminal<Pk, Tap> = Terminal::MultiA(th);
        chk!(same(&t, Type::multi_a()), "type_check(multi_a) is the rule for multi_a");
        core::mem::forget(t);
    }
    if let Ok(th) = Threshold::new(1, vec![pk, pk]) {
        let t: Terminal<Pk, Tap> = Terminal::SortedMultiA(th);
        chk!(same(&t, Type::sortedmulti_a()), "type_check(sortedmulti_a) is the rule for sortedmulti_a");
        core::mem::forget(t);
    }
    cover!(true, "reached");
}
