//! C09/C04 (rule level) — size formulas against reference encoders, whole domains.
use miniscript::bitcoin::script::Builder;
use miniscript::verif_hooks as hk;

use crate::{chk, cover, sym};

/// script_num_size(n) == length of the minimal push of n, for every u32
/// (lock times and thresholds are the only numbers Miniscript encodes).
#[cfg_attr(kani, kani::proof)]
#[cfg_attr(kani, kani::unwind(8))]
pub fn c04_script_num_size() {
    let n = sym::u32_();
    let s = Builder::new().push_int(n as i64).into_script();
    chk!(miniscript::script_num_size(n as usize) == s.len(), "script_num_size differs from the encoded push");
    cover!(s.len() == 6, "5-byte number");
    cover!(s.len() == 1, "small number opcode");
    core::mem::forget(s);
}

/// reference compact-size length
fn compact_size(n: u64) -> usize {
    if n < 0xfd {
        1
    } else if n <= 0xffff {
        3
    } else if n <= 0xffff_ffff {
        5
    } else {
        9
    }
}

#[cfg_attr(kani, kani::proof)]
pub fn c09_varint_len() {
    let n = sym::usize_();
    chk!(hk::varint_len(n) == compact_size(n as u64), "varint_len differs from the compact-size encoding length");
    cover!(n == 0xfd, "boundary");
}

/// push_opcode_size(len) == bytes of the smallest push opcode for a len-byte element
#[cfg_attr(kani, kani::proof)]
pub fn c09_push_opcode_size() {
    let n = sym::usize_();
    sym::assume(n <= 0xffff_ffff);
    let r = if n <= 75 {
        1
    } else if n <= 0xff {
        2
    } else if n <= 0xffff {
        3
    } else {
        5
    };
    chk!(hk::push_opcode_size(n) == r, "push_opcode_size differs from the minimal push opcode length");
    cover!(n == 76, "PUSHDATA1 boundary");
}

// ------------------------------------------------------------------------------------------
// Accounting lemmas: every `ExtData` combinator on ARBITRARY child figures against the
// satisfaction table of the Miniscript specification.  For a fragment built from children whose
// real satisfactions / dissatisfactions stay within the children's figures, the witness the table
// prescribes is a concatenation of child witnesses plus selector pushes (`<>`: 1 element, 1 byte
// as a witness item, 1 byte in a scriptSig; `<1>`: 1 element, 2 bytes, 1 byte), so the figure of
// the parent must be at least the sum the table gives, for every alternative the table offers.
// Decided per figure: element count, witness bytes, scriptSig bytes, executed-opcode surcharge.
// (`max_exec_stack_count` is not covered: DESIGN §0.3.)

use miniscript::miniscript::types::extra_props::{ExtData, SatData, TimelockInfo};

/// (count, witness bytes, scriptSig bytes, executed-op surcharge); None = impossible
type R = Option<[usize; 4]>;

fn fig(d: Option<SatData>) -> R { d.map(|d| [d.max_witness_stack_count, d.max_witness_stack_size, d.max_script_sig_size, d.max_exec_op_count]) }
fn cat(a: R, b: R) -> R {
    match (a, b) {
        (Some(a), Some(b)) => Some([a[0] + b[0], a[1] + b[1], a[2] + b[2], a[3] + b[3]]),
        _ => None,
    }
}
const PUSH0: R = Some([1, 1, 1, 0]);
const PUSH1: R = Some([1, 2, 1, 0]);
const NOTHING: R = Some([0, 0, 0, 0]);

/// `lib` covers the alternative `want`: if the table offers it, the library's figure exists and is
/// at least as large in every component.
fn covers(lib: R, want: R) -> bool {
    match (want, lib) {
        (None, _) => true,
        (Some(_), None) => false,
        (Some(w), Some(l)) => l[0] >= w[0] && l[1] >= w[1] && l[2] >= w[2] && l[3] >= w[3],
    }
}
/// the library does not invent a (dis)satisfaction the table does not have
fn exists_only_if(lib: R, alts: &[R]) -> bool {
    let mut any = false;
    let mut i = 0;
    while i < alts.len() {
        if alts[i].is_some() {
            any = true;
        }
        i += 1;
    }
    lib.is_none() || any
}

fn any_sat16() -> Option<SatData> {
    if sym::bool_() {
        Some(SatData {
            max_witness_stack_size: sym::u16_() as usize,
            max_witness_stack_count: sym::u16_() as usize,
            max_script_sig_size: sym::u16_() as usize,
            max_exec_stack_count: sym::u16_() as usize,
            max_exec_op_count: sym::u16_() as usize,
        })
    } else {
        None
    }
}
fn any_ext16() -> ExtData {
    ExtData {
        pk_cost: sym::u16_() as usize,
        has_free_verify: sym::bool_(),
        static_ops: sym::u16_() as usize,
        sat_data: any_sat16(),
        dissat_data: any_sat16(),
        timelock_info: TimelockInfo::new(),
        tree_height: sym::u8_() as usize,
    }
}

fn check(name_sat_ok: bool, name_dis_ok: bool) {
    chk!(name_sat_ok, "static satisfaction figures are below what the specification's satisfaction table composes from the children");
    chk!(name_dis_ok, "static dissatisfaction figures are below what the specification's satisfaction table composes from the children");
}

// @h c09_acc_* timeout=1500 mem=8
#[cfg_attr(kani, kani::proof)]
pub fn c09_acc_wrappers() {
    let x = any_ext16();
    let (xs, xd) = (fig(x.sat_data), fig(x.dissat_data));
    // a: s: c: n: leave the witness alone
    for e in [x.cast_alt(), x.cast_swap(), x.cast_check(), x.cast_zeronotequal()] {
        check(covers(fig(e.sat_data), xs) && exists_only_if(fig(e.sat_data), &[xs]), covers(fig(e.dissat_data), xd) && exists_only_if(fig(e.dissat_data), &[xd]));
    }
    // v: satisfaction unchanged, no dissatisfaction
    let v = x.cast_verify();
    check(covers(fig(v.sat_data), xs) && exists_only_if(fig(v.sat_data), &[xs]), v.dissat_data.is_none());
    // t:X = and_v(X,1)
    let t = x.cast_true();
    check(covers(fig(t.sat_data), xs) && exists_only_if(fig(t.sat_data), &[xs]), t.dissat_data.is_none());
    // d:X  sat = sat(X) <1>, dissat = <>
    let d = x.cast_dupif();
    check(covers(fig(d.sat_data), cat(xs, PUSH1)) && exists_only_if(fig(d.sat_data), &[xs]), covers(fig(d.dissat_data), PUSH0));
    // j:X  sat = sat(X), dissat = <>
    let j = x.cast_nonzero();
    check(covers(fig(j.sat_data), xs) && exists_only_if(fig(j.sat_data), &[xs]), covers(fig(j.dissat_data), PUSH0));
    // l:X = or_i(0,X): sat = sat(X) <>, dissat = <1> | dsat(X) <>
    let l = x.cast_likely();
    check(covers(fig(l.sat_data), cat(xs, PUSH0)) && exists_only_if(fig(l.sat_data), &[xs]), covers(fig(l.dissat_data), PUSH1) && covers(fig(l.dissat_data), cat(xd, PUSH0)));
    // u:X = or_i(X,0): sat = sat(X) <1>, dissat = dsat(X) <1> | <>
    let u = x.cast_unlikely();
    check(covers(fig(u.sat_data), cat(xs, PUSH1)) && exists_only_if(fig(u.sat_data), &[xs]), covers(fig(u.dissat_data), PUSH0) && covers(fig(u.dissat_data), cat(xd, PUSH1)));
    cover!(x.sat_data.is_some() && x.dissat_data.is_none(), "child without dissatisfaction");
    cover!(x.sat_data.is_none(), "child without satisfaction");
}

#[cfg_attr(kani, kani::proof)]
pub fn c09_acc_binary() {
    let (x, z) = (any_ext16(), any_ext16());
    let (xs, xd, zs, zd) = (fig(x.sat_data), fig(x.dissat_data), fig(z.sat_data), fig(z.dissat_data));
    // and_v(X,Y): sat = sat(Y) sat(X)
    let e = ExtData::and_v(x, z);
    check(covers(fig(e.sat_data), cat(xs, zs)) && exists_only_if(fig(e.sat_data), &[cat(xs, zs)]), e.dissat_data.is_none());
    // and_b(X,Y): sat = sat(Y) sat(X); dissat = dsat(Y) dsat(X)
    let e = ExtData::and_b(x, z);
    check(covers(fig(e.sat_data), cat(xs, zs)) && exists_only_if(fig(e.sat_data), &[cat(xs, zs)]), covers(fig(e.dissat_data), cat(xd, zd)));
    // or_b(X,Z): sat = dsat(Z) sat(X) | sat(Z) dsat(X); dissat = dsat(Z) dsat(X)
    let e = ExtData::or_b(x, z);
    check(
        covers(fig(e.sat_data), cat(xs, zd)) && covers(fig(e.sat_data), cat(xd, zs)) && exists_only_if(fig(e.sat_data), &[cat(xs, zd), cat(xd, zs)]),
        covers(fig(e.dissat_data), cat(xd, zd)) && exists_only_if(fig(e.dissat_data), &[cat(xd, zd)]),
    );
    // or_c(X,Z): sat = sat(X) | sat(Z) dsat(X)
    let e = ExtData::or_c(x, z);
    check(covers(fig(e.sat_data), xs) && covers(fig(e.sat_data), cat(xd, zs)) && exists_only_if(fig(e.sat_data), &[xs, cat(xd, zs)]), e.dissat_data.is_none());
    // or_d(X,Z): sat = sat(X) | sat(Z) dsat(X); dissat = dsat(Z) dsat(X)
    let e = ExtData::or_d(x, z);
    check(
        covers(fig(e.sat_data), xs) && covers(fig(e.sat_data), cat(xd, zs)) && exists_only_if(fig(e.sat_data), &[xs, cat(xd, zs)]),
        covers(fig(e.dissat_data), cat(xd, zd)) && exists_only_if(fig(e.dissat_data), &[cat(xd, zd)]),
    );
    // or_i(X,Z): sat = sat(X) <1> | sat(Z) <>; dissat = dsat(X) <1> | dsat(Z) <>
    let e = ExtData::or_i(x, z);
    check(
        covers(fig(e.sat_data), cat(xs, PUSH1)) && covers(fig(e.sat_data), cat(zs, PUSH0)) && exists_only_if(fig(e.sat_data), &[xs, zs]),
        covers(fig(e.dissat_data), cat(xd, PUSH1)) && covers(fig(e.dissat_data), cat(zd, PUSH0)) && exists_only_if(fig(e.dissat_data), &[xd, zd]),
    );
    cover!(x.dissat_data.is_some() && z.dissat_data.is_none(), "right child without dissatisfaction");
    cover!(x.dissat_data.is_none() && z.dissat_data.is_some(), "left child without dissatisfaction");
}

#[cfg_attr(kani, kani::proof)]
pub fn c09_acc_andor() {
    let (x, y, z) = (any_ext16(), any_ext16(), any_ext16());
    let (xs, xd, ys, zs, zd) = (fig(x.sat_data), fig(x.dissat_data), fig(y.sat_data), fig(z.sat_data), fig(z.dissat_data));
    // andor(X,Y,Z): sat = sat(Y) sat(X) | sat(Z) dsat(X); dissat = dsat(Z) dsat(X)
    let e = ExtData::and_or(x, y, z);
    check(
        covers(fig(e.sat_data), cat(xs, ys)) && covers(fig(e.sat_data), cat(xd, zs)) && exists_only_if(fig(e.sat_data), &[cat(xs, ys), cat(xd, zs)]),
        covers(fig(e.dissat_data), cat(xd, zd)) && exists_only_if(fig(e.dissat_data), &[cat(xd, zd)]),
    );
    cover!(x.dissat_data.is_none(), "X without dissatisfaction");
}

/// thresh(k, X1..Xn): sat = exactly k children satisfied, the others dissatisfied, for EVERY such
/// choice; dissat = all dissatisfied.
fn acc_thresh<const N: usize>() {
    let mut xs = [ExtData::TRUE; N];
    let mut i = 0;
    while i < N {
        xs[i] = any_ext16();
        // precondition of the rule: `thresh` only type-checks over dissatisfiable children (Bdu /
        // Wdu; proved for the typing rule in C05), and a dissatisfiable fragment always carries
        // dissatisfaction figures.  Without it the solver returns a child that can be satisfied but
        // not dissatisfied, which no well-typed thresh has (first version of this harness).
        sym::assume(xs[i].dissat_data.is_some());
        i += 1;
    }
    let k = sym::usize_();
    sym::assume(k >= 1 && k <= N);
    let e = ExtData::threshold(k, N, |i| xs[i]);
    // a symbolic choice of the satisfied subset
    let mask = sym::u8_() as usize;
    sym::assume(mask < (1 << N));
    let mut want = NOTHING;
    let mut alld = NOTHING;
    let mut cnt = 0;
    i = 0;
    while i < N {
        if (mask >> i) & 1 == 1 {
            want = cat(want, fig(xs[i].sat_data));
            cnt += 1;
        } else {
            want = cat(want, fig(xs[i].dissat_data));
        }
        alld = cat(alld, fig(xs[i].dissat_data));
        i += 1;
    }
    if cnt == k {
        chk!(covers(fig(e.sat_data), want), "static satisfaction figures are below what the specification's satisfaction table composes from the children");
        cover!(want.is_some(), "a k-subset is satisfiable");
    }
    chk!(covers(fig(e.dissat_data), alld), "static dissatisfaction figures are below what the specification's satisfaction table composes from the children");
}

// @h c09_acc_thresh_2 timeout=1500 mem=8
#[cfg_attr(kani, kani::proof)]
#[cfg_attr(kani, kani::unwind(8))]
pub fn c09_acc_thresh_2() { acc_thresh::<2>() }
// (three children: CBMC exceeds 10 GB after 50 min - measured; not registered)
