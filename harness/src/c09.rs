//! C09/C04 (rule level) — size formulas against reference encoders, whole domains.
use miniscript::bitcoin::script::Builder;
use miniscript::verif_hooks as hk;

use crate::{chk, cover, sym};

/// script_num_size(n) == length of the minimal push of n, for every u32
/// (lock times and thresholds are the only numbers Miniscript encodes).
#[cfg_attr(kani, kani::proof)]
#[cfg_attr(kani, kani::unwind(8))]
pub fn c04_script_num_size() {
    let n = sym::u32_();
    let s = Builder::new().push_int(n as i64).into_script();
    chk!(miniscript::script_num_size(n as usize) == s.len(), "script_num_size differs from the encoded push");
    cover!(s.len() == 6, "5-byte number");
    cover!(s.len() == 1, "small number opcode");
    core::mem::forget(s);
}

/// reference compact-size length
fn compact_size(n: u64) -> usize {
    if n < 0xfd {
        1
    } else if n <= 0xffff {
        3
    } else if n <= 0xffff_ffff {
        5
    } else {
        9
    }
}

#[cfg_attr(kani, kani::proof)]
pub fn c09_varint_len() {
    let n = sym::usize_();
    chk!(hk::varint_len(n) == compact_size(n as u64), "varint_len differs from the compact-size encoding length");
    cover!(n == 0xfd, "boundary");
}

/// push_opcode_size(len) == bytes of the smallest push opcode for a len-byte element
#[cfg_attr(kani, kani::proof)]
pub fn c09_push_opcode_size() {
    let n = sym::usize_();
    sym::assume(n <= 0xffff_ffff);
    let r = if n <= 75 {
        1
    } else if n <= 0xff {
        2
    } else if n <= 0xffff {
        3
    } else {
        5
    };
    chk!(hk::push_opcode_size(n) == r, "push_opcode_size differs from the minimal push opcode length");
    cover!(n == 76, "PUSHDATA1 boundary");
}
