//! C04 — lexer canonicity: any byte string the lexer accepts re-serialises (with the
//! library's own token folding rules) to exactly those bytes.  One or two symbolic bytes in
//! a concrete context (DESIGN §5 C04.1).
use miniscript::bitcoin::Script;
use miniscript::miniscript::lex::{lex, Token};

use crate::{chk, cover, sym};

/// Canonical serialisation of a token stream (what `Terminal::encode` would emit for it).
/// Returns (bytes, len); len = 255 on overflow.
fn ser(tokens: &[Token]) -> ([u8; 12], usize) {
    let mut out = [0u8; 12];
    let mut n = 0usize;
    let mut i = 0;
    while i < tokens.len() {
        let fold = i + 1 < tokens.len() && tokens[i + 1] == Token::Verify;
        let mut b: [u8; 6] = [0; 6];
        let mut l = 1usize;
        match tokens[i] {
            Token::BoolAnd => b[0] = 0x9a,
            Token::BoolOr => b[0] = 0x9b,
            Token::Add => b[0] = 0x93,
            Token::Equal => {
                b[0] = if fold { 0x88 } else { 0x87 };
                if fold {
                    i += 1;
                }
            }
            Token::NumEqual => {
                b[0] = if fold { 0x9d } else { 0x9c };
                if fold {
                    i += 1;
                }
            }
            Token::CheckSig => {
                b[0] = if fold { 0xad } else { 0xac };
                if fold {
                    i += 1;
                }
            }
            Token::CheckMultiSig => {
                b[0] = if fold { 0xaf } else { 0xae };
                if fold {
                    i += 1;
                }
            }
            Token::CheckSigAdd => b[0] = 0xba,
            Token::CheckSequenceVerify => b[0] = 0xb2,
            Token::CheckLockTimeVerify => b[0] = 0xb1,
            Token::FromAltStack => b[0] = 0x6c,
            Token::ToAltStack => b[0] = 0x6b,
            Token::Drop => b[0] = 0x75,
            Token::Dup => b[0] = 0x76,
            Token::If => b[0] = 0x63,
            Token::IfDup => b[0] = 0x73,
            Token::NotIf => b[0] = 0x64,
            Token::Else => b[0] = 0x67,
            Token::EndIf => b[0] = 0x68,
            Token::ZeroNotEqual => b[0] = 0x92,
            Token::Size => b[0] = 0x82,
            Token::Swap => b[0] = 0x7c,
            Token::Verify => b[0] = 0x69,
            Token::Ripemd160 => b[0] = 0xa6,
            Token::Hash160 => b[0] = 0xa9,
            Token::Sha256 => b[0] = 0xa8,
            Token::Hash256 => b[0] = 0xaa,
            Token::Num(v) => {
                if v == 0 {
                    b[0] = 0x00;
                } else if v <= 16 {
                    b[0] = 0x50 + v as u8;
                } else {
                    // minimal little-endian magnitude with sign bit handling
                    let mut x = v;
                    let mut k = 0usize;
                    while x > 0 {
                        b[1 + k] = (x & 0xff) as u8;
                        x >>= 8;
                        k += 1;
                    }
                    if b[k] & 0x80 != 0 {
                        b[1 + k] = 0;
                        k += 1;
                    }
                    b[0] = k as u8;
                    l = 1 + k;
                }
            }
            _ => return (out, 255), // 20/32/33/65-byte pushes do not occur in these harnesses
        }
        let mut j = 0;
        while j < l {
            if n >= 12 {
                return (out, 255);
            }
            out[n] = b[j];
            n += 1;
            j += 1;
        }
        i += 1;
    }
    (out, n)
}

fn check_script(bytes: &[u8]) {
    let r = lex(Script::from_bytes(bytes));
    match r {
        Ok(tokens) => {
            cover!(true, "some script is accepted by the lexer");
            let (out, n) = ser(&tokens);
            chk!(n != 255, "serialiser capacity (inconclusive)");
            let mut same = n == bytes.len();
            let mut i = 0;
            while i < bytes.len() {
                if i < n && out[i] != bytes[i] {
                    same = false;
                }
                i += 1;
            }
            chk!(same, "lexer accepts a script that is not the canonical encoding of its token stream");
            core::mem::forget(tokens);
        }
        Err(e) => {
            cover!(true, "some script is rejected by the lexer");
            core::mem::forget(e);
        }
    }
}

/// every single-opcode script
// @h c04_lex_1 timeout=900 mem=6
#[cfg_attr(kani, kani::proof)]
#[cfg_attr(kani, kani::unwind(8))]
pub fn c04_lex_1() {
    let b = sym::u8_();
    sym::assume(b == 0 || b > 0x4e);
    check_script(&[b]);
}

/// every one-byte push (number minimality)
// @h c04_lex_push1 timeout=1800 mem=6
#[cfg_attr(kani, kani::proof)]
#[cfg_attr(kani, kani::unwind(8))]
pub fn c04_lex_push1() {
    let b = sym::u8_();
    check_script(&[0x01, b]);
}

/// every two-byte push
// @h c04_lex_push2 timeout=1800 mem=10 tier=thorough
#[cfg_attr(kani, kani::proof)]
#[cfg_attr(kani, kani::unwind(8))]
pub fn c04_lex_push2() {
    let (a, b) = (sym::u8_(), sym::u8_());
    check_script(&[0x02, a, b]);
}

macro_rules! first_op {
    ($name:ident, $op:expr) => {
        /// a fixed opcode followed by every opcode
        #[cfg_attr(kani, kani::proof)]
        #[cfg_attr(kani, kani::unwind(8))]
        pub fn $name() {
            let b = sym::u8_();
            sym::assume(b == 0 || b > 0x4e);
            check_script(&[$op, b]);
        }
    };
}
// @h c04_lex2_* timeout=1200 mem=6
// @h c04_lex2_equalverify tier=thorough mem=16 timeout=2400
// @h c04_lex2_verify tier=thorough
// @h c04_lex2_num tier=thorough
first_op!(c04_lex2_equal, 0x87);
first_op!(c04_lex2_numequal, 0x9c);
first_op!(c04_lex2_checksig, 0xac);
first_op!(c04_lex2_checkmultisig, 0xae);
first_op!(c04_lex2_equalverify, 0x88);
first_op!(c04_lex2_verify, 0x69);
first_op!(c04_lex2_num, 0x52);
