//! Kani harness crate for rust-miniscript (see /verif/DESIGN.md).
//!
//! Every harness is an ordinary `pub fn name()` whose symbolic inputs are drawn
//! through `sym::*`.  Under `cargo kani` those are `kani::any()`; in the native
//! `replay` binary they are popped from the concrete byte vectors of a solver
//! model, so that the same assertions run natively (DESIGN §3.4).
#![allow(clippy::all)]
#![allow(dead_code)]

pub mod sym;
pub mod spec;
pub mod vm;
pub mod shape;
pub mod w;
pub mod c04;
pub mod c05;
pub mod c08;
pub mod c09;
pub mod c10;
pub mod c11;
pub mod c12;
pub mod c13;
pub mod c15;
pub mod c17;
pub mod c18;

#[cfg(not(kani))]
pub mod gen;
#[cfg(not(kani))]
pub mod gen_harness;

#[cfg(has_generated)]
pub mod generated;

pub mod registry;
