//! Native replay of a solver model: `replay <harness> <vals.json>`.
//! Runs the same harness body that Kani verified, with the model's concrete
//! values, against the real library (no stubs, no cfg(kani)).
//! exit 1 = an assertion of the harness fails (or the library panics) natively,
//! exit 0 = it does not reproduce, exit 3 = the model violates an assumption.
#[cfg(kani)]
fn main() {}

#[cfg(not(kani))]
use std::panic;

#[cfg(not(kani))]
fn parse(s: &str) -> Vec<Vec<u8>> {
    // minimal JSON reader for [[1,2],[3]]
    let mut out = Vec::new();
    let mut cur: Option<Vec<u8>> = None;
    let mut num: Option<u32> = None;
    let mut depth = 0;
    for c in s.chars() {
        match c {
            '[' => {
                depth += 1;
                if depth == 2 {
                    cur = Some(Vec::new());
                }
            }
            ']' => {
                if let (Some(n), Some(v)) = (num.take(), cur.as_mut()) {
                    v.push(n as u8);
                }
                if depth == 2 {
                    out.push(cur.take().unwrap());
                }
                depth -= 1;
            }
            ',' => {
                if let (Some(n), Some(v)) = (num.take(), cur.as_mut()) {
                    v.push(n as u8);
                }
            }
            d if d.is_ascii_digit() => num = Some(num.unwrap_or(0) * 10 + d.to_digit(10).unwrap()),
            _ => {}
        }
    }
    out
}

#[cfg(not(kani))]
fn main() {
    let args: Vec<String> = std::env::args().collect();
    if args.len() < 3 {
        eprintln!("usage: replay <harness> <vals.json>");
        std::process::exit(2);
    }
    let f = msverif::registry::ALL.iter().find(|(n, _)| *n == args[1]);
    let f = match f {
        Some((_, f)) => *f,
        None => {
            eprintln!("unknown harness {}", args[1]);
            std::process::exit(2);
        }
    };
    let vals = parse(&std::fs::read_to_string(&args[2]).expect("read vals"));
    msverif::sym::load(vals);
    let r = panic::catch_unwind(f);
    if let Some(a) = msverif::sym::assume_failed() {
        println!("ASSUMPTION-VIOLATED {}", a);
        std::process::exit(3);
    }
    match r {
        Err(e) => {
            let msg = e.downcast_ref::<String>().cloned().or_else(|| e.downcast_ref::<&str>().map(|s| s.to_string())).unwrap_or_default();
            if msg.starts_with("replay-infrastructure") {
                println!("REPLAY-ERROR {}", msg);
                std::process::exit(2);
            }
            // assertions recorded before the panic still count
            for m in msverif::sym::failures() {
                println!("REPRODUCED assertion: {}", m);
            }
            if msverif::sym::exhausted() && msverif::sym::failures().is_empty() {
                println!("NOT-REPRODUCED (panic after the model's values were used up: {})", msg);
                std::process::exit(0);
            }
            println!("REPRODUCED panic: {}", msg);
            std::process::exit(1);
        }
        Ok(()) => {
            let fails = msverif::sym::failures();
            if fails.is_empty() {
                println!("NOT-REPRODUCED (covers hit: {:?})", msverif::sym::covers_hit());
                std::process::exit(0);
            }
            for m in fails {
                println!("REPRODUCED assertion: {}", m);
            }
            std::process::exit(1);
        }
    }
}
