//! Native generator entry point (see src/gen/mod.rs).
#[cfg(kani)]
fn main() {}
#[cfg(not(kani))]
fn main() { msverif::gen::main() }
