//! Constant artefact tables emitted by the native generator (library code from the
//! current /repo tree ran natively and produced them), plus the policy evaluator.

use crate::spec::S;
use crate::vm::{self, El, Env, Op};

pub const MAXW: usize = 10;

/// A witness template as the library produced it, mapped to abstract elements.
#[derive(Copy, Clone, PartialEq, Eq, Debug)]
pub struct Wit {
    /// 0 = Stack, 1 = Unavailable, 2 = Impossible, 3 = (plan) no plan
    pub kind: u8,
    pub n: u8,
    pub els: [El; MAXW],
    pub has_sig: bool,
    /// reported absolute lock (consensus u32), 0 = none
    pub abs: u32,
    /// reported relative lock (consensus u32), 0 = none
    pub rel: u32,
    /// where the library returned this template: bit0 sat (non-malleable), bit1 sat (malleable),
    /// bit2 dissat, bit3 dissat (malleable mode), bit4 plan, bit5 plan_mall
    pub roles: u8,
}
pub const W_STACK: u8 = 0;
pub const W_UNAVAILABLE: u8 = 1;
pub const W_IMPOSSIBLE: u8 = 2;
pub const W_NOPLAN: u8 = 3;

/// One asset valuation of a shape and what the real library returned for it.
/// The witness fields are indices into `Shape::wits` (distinct templates are few).
#[derive(Copy, Clone, Debug)]
pub struct Row {
    pub sigs: u8,
    pub pres: u8,
    pub after_ok: u8,
    pub older_ok: u8,
    /// `build_template` (non-malleable) / `build_template_mall`
    pub sat: u8,
    pub sat_m: u8,
    /// kinds of those two templates (copied for cheap symbolic lookup)
    pub sat_k: u8,
    pub sat_m_k: u8,
    pub plan_k: u8,
    pub plan_m_k: u8,
    /// dissatisfaction half of the root node (hook H2), both modes
    pub dis: u8,
    pub dis_m: u8,
    /// `Descriptor::into_plan` / `into_plan_mall` template (without script / control block);
    /// kind 3 = no plan
    pub plan: u8,
    pub plan_m: u8,
    /// sizes the plan announced (witness_size, scriptsig_size), 0 if no plan
    pub plan_wsize: u32,
    pub plan_ssize: u32,
    pub plan_m_wsize: u32,
    pub plan_m_ssize: u32,
    /// descriptor-level entry points vs the miniscript-level templates of this row:
    /// [get_satisfaction, get_satisfaction_mall] of the primary wrapper, the same two of the
    /// secondary wrapper (sh(wsh(..))), [into_plan, into_plan_mall] of the secondary wrapper.
    /// 0 = neither exists, 1 = both exist and are equal, 2 = differ, 3 = only one exists,
    /// 4 = the descriptor-level result could not be interpreted
    pub dcodes: [u8; 6],
}

/// Static figures the library derives for the shape.
#[derive(Copy, Clone, Debug)]
pub struct Figures {
    pub script_size: u32,
    pub script_len: u32,
    /// ExtData::sat_data (u32::MAX = None)
    pub sat_stack_size: u32,
    pub sat_stack_count: u32,
    pub sat_scriptsig_size: u32,
    pub sat_exec_stack: u32,
    pub sat_exec_ops: u32,
    pub dis_stack_count: u32,
    pub dis_exec_stack: u32,
    pub dis_exec_ops: u32,
    pub static_ops: u32,
    /// Miniscript::max_satisfaction_witness_elements / max_satisfaction_size (u32::MAX = Err)
    pub max_sat_elems: u32,
    pub max_sat_size: u32,
    /// the library's verdict "within the context's resource limits"
    pub within_limits: bool,
}

/// Lifted policy in array form (post-order).
#[derive(Copy, Clone, Debug)]
pub struct PNode {
    /// 0 unsat, 1 trivial, 2 key(a), 3 after(v), 4 older(v), 5 hash(a), 6 thresh(k of n preceding subtrees)
    pub kind: u8,
    pub a: u8,
    pub k: u8,
    pub n: u8,
    pub v: u32,
}
pub const P_UNSAT: u8 = 0;
pub const P_TRIVIAL: u8 = 1;
pub const P_KEY: u8 = 2;
pub const P_AFTER: u8 = 3;
pub const P_OLDER: u8 = 4;
pub const P_HASH: u8 = 5;
pub const P_THRESH: u8 = 6;

pub struct Shape {
    pub name: &'static str,
    pub ctx: u8,
    pub ops: &'static [Op],
    pub nkeys: u8,
    pub nhash: u8,
    pub hashkind: [u8; 4],
    pub nabs: u8,
    pub abs: [u32; 2],
    pub nrel: u8,
    pub rel: [u32; 2],
    /// the library's type of the root, as specification letters
    pub ty: S,
    /// passes `validate(&Ctx::SANE)` natively
    pub sane: bool,
    /// lift() succeeded natively
    pub liftable: bool,
    pub policy: &'static [PNode],
    /// consistent (after_ok, older_ok) vectors, row index = ((lv * 2^nhash + pres) * 2^nkeys + sigs)
    pub lockvecs: &'static [(u8, u8)],
    pub wits: &'static [Wit],
    pub rows: &'static [Row],
    /// a descriptor wrapper accepted the miniscript, so plan rows are meaningful
    pub has_desc: bool,
    /// some valuation has a (malleable-mode) satisfaction
    pub satisfiable: bool,
    pub fig: Figures,
}

/// One run of the REAL interpreter (natively, by the generator) on candidate witness `cand`
/// under the representative lock values of lock class `lv` (C13).
#[derive(Copy, Clone, Debug)]
pub struct ICase {
    pub cand: u8,
    pub lv: u8,
    /// the interpreter iterated to the end without an error
    pub accept: bool,
    /// what it reported: keys with a verified signature, hash atoms with a preimage,
    /// absolute / relative lock atoms (by value) of the shape
    pub sigs: u8,
    pub pres: u8,
    pub absm: u8,
    pub relm: u8,
}

pub struct ITab {
    pub sh: &'static Shape,
    /// classes of (nLockTime, nSequence) under the INTERPRETER's own lock predicates
    /// (`c13::iabs` / `c13::irel`, proved equal to the real evaluators for all u32); third
    /// component: nSequence is final (0xffffffff)
    pub lockvecs: &'static [(u8, u8, u8)],
    /// candidate witnesses; `roles` = 1 for an unmutated library satisfaction, whose `abs` / `rel`
    /// are the locks the library reported for it
    pub cands: &'static [Wit],
    pub cases: &'static [ICase],
}

#[derive(Copy, Clone)]
pub struct World {
    pub sigs: u8,
    pub pres: u8,
    pub n_lock_time: u32,
    pub n_sequence: u32,
}

impl Shape {
    pub fn env(&self, w: &World) -> Env {
        Env { ctx: self.ctx, hashkind: self.hashkind, n_lock_time: w.n_lock_time, n_sequence: w.n_sequence }
    }
    pub fn after_vec(&self, w: &World) -> u8 {
        let mut v = 0u8;
        let mut i = 0;
        while i < self.nabs as usize {
            if vm::bip65(self.abs[i], w.n_lock_time, w.n_sequence) {
                v |= 1 << i;
            }
            i += 1;
        }
        v
    }
    pub fn older_vec(&self, w: &World) -> u8 {
        let mut v = 0u8;
        let mut i = 0;
        while i < self.nrel as usize {
            if vm::bip112(self.rel[i], w.n_sequence) {
                v |= 1 << i;
            }
            i += 1;
        }
        v
    }
    /// Index of the table row for a world (None if the lock vector is not in the table:
    /// a generator defect, reported by the harness).
    pub fn row_of(&self, w: &World) -> Option<usize> {
        let a = self.after_vec(w);
        let o = self.older_vec(w);
        let mut lv = 0;
        let mut found = false;
        let mut i = 0;
        while i < self.lockvecs.len() {
            if self.lockvecs[i].0 == a && self.lockvecs[i].1 == o {
                lv = i;
                found = true;
            }
            i += 1;
        }
        if !found {
            return None;
        }
        Some(((lv << self.nhash) + w.pres as usize) * (1usize << self.nkeys) + w.sigs as usize)
    }
}

/// Truth value of an array-form policy in a world.
pub fn eval(p: &[PNode], w: &World) -> bool {
    let mut st = [false; 12];
    let mut sp = 0usize;
    let mut i = 0;
    while i < p.len() {
        let nd = p[i];
        let v = match nd.kind {
            P_UNSAT => false,
            P_TRIVIAL => true,
            P_KEY => (w.sigs >> nd.a) & 1 == 1,
            P_HASH => (w.pres >> nd.a) & 1 == 1,
            P_AFTER => vm::bip65(nd.v, w.n_lock_time, w.n_sequence),
            P_OLDER => vm::bip112(nd.v, w.n_sequence),
            _ => {
                let mut c = 0u8;
                let mut j = 0;
                while j < nd.n as usize {
                    sp -= 1;
                    if st[sp] {
                        c += 1;
                    }
                    j += 1;
                }
                c >= nd.k
            }
        };
        st[sp] = v;
        sp += 1;
        i += 1;
    }
    st[0]
}

/// Fewest true key atoms in any satisfying world is not needed here (C18 has its own).

/// A symbolic element of the witness alphabet of a shape.
pub fn any_el(sh: &Shape) -> El {
    use crate::sym;
    let t = sym::below(9);
    let a = sym::below(4);
    match t {
        0 => vm::EMPTY,
        1 => vm::ONE,
        2 => vm::num(2),
        3 => vm::el(vm::tag::SIG, a, if sym::bool_() { 1 } else { 0 }),
        4 => vm::key(a),
        5 => vm::pre(a),
        6 => vm::ZERO32,
        7 => vm::el(vm::tag::JUNK, a, if sh.ctx == vm::TAP { 33 } else { 32 }),
        _ => vm::el(vm::tag::JUNK, a, 20),
    }
}
