//! C18 (rule level) — the mixed-time-lock rule on the REAL `TimelockInfo::combine_threshold`.
use miniscript::miniscript::types::extra_props::TimelockInfo;
use miniscript::verif_hooks as hk;

use crate::{chk, cover, sym};

fn any_info() -> TimelockInfo {
    TimelockInfo { csv_with_height: sym::bool_(), csv_with_time: sym::bool_(), cltv_with_height: sym::bool_(), cltv_with_time: sym::bool_(), contains_combination: sym::bool_() }
}

/// reference: some pair of distinct children has a height/time conflict of the same kind
fn reference<const N: usize>(k: usize, t: &[TimelockInfo; N]) -> TimelockInfo {
    let mut r = TimelockInfo::new();
    let mut i = 0;
    while i < N {
        r.csv_with_height |= t[i].csv_with_height;
        r.csv_with_time |= t[i].csv_with_time;
        r.cltv_with_height |= t[i].cltv_with_height;
        r.cltv_with_time |= t[i].cltv_with_time;
        r.contains_combination |= t[i].contains_combination;
        let mut j = 0;
        while j < N {
            if i != j && k > 1 {
                if (t[i].csv_with_height && t[j].csv_with_time) || (t[i].cltv_with_height && t[j].cltv_with_time) {
                    r.contains_combination = true;
                }
            }
            j += 1;
        }
        i += 1;
    }
    r
}

fn combine_n<const N: usize>() {
    let mut t = [TimelockInfo::new(); N];
    let mut i = 0;
    while i < N {
        t[i] = any_info();
        i += 1;
    }
    let k = sym::usize_();
    sym::assume(k >= 1 && k <= N);
    let lib = hk::timelock_combine_threshold(k, &t);
    let r = reference(k, &t);
    chk!(lib == r, "combine_threshold must flag exactly a same-kind height/time conflict between two different children (k > 1)");
    cover!(lib.contains_combination, "conflict");
    cover!(!lib.contains_combination && (lib.csv_with_height && lib.csv_with_time), "both units without conflict (k = 1)");
}

#[cfg_attr(kani, kani::proof)]
#[cfg_attr(kani, kani::unwind(5))]
pub fn c18_combine_2() { combine_n::<2>() }
#[cfg_attr(kani, kani::proof)]
#[cfg_attr(kani, kani::unwind(6))]
pub fn c18_combine_3() { combine_n::<3>() }
#[cfg_attr(kani, kani::proof)]
#[cfg_attr(kani, kani::unwind(7))]
pub fn c18_combine_4() { combine_n::<4>() }

#[cfg_attr(kani, kani::proof)]
#[cfg_attr(kani, kani::unwind(5))]
pub fn c18_combine_and_or() {
    let (a, b) = (any_info(), any_info());
    chk!(hk::timelock_combine_and(a, b) == reference(2, &[a, b]), "combine_and = threshold 2 of 2");
    chk!(hk::timelock_combine_or(a, b) == reference(1, &[a, b]), "combine_or = threshold 1 of 2");
    cover!(hk::timelock_combine_and(a, b).contains_combination && !a.contains_combination && !b.contains_combination, "new conflict");
}

// ---- translation validation of the policy transformations (generated cases) ----------------

/// atom-array policy node: (kind, atom, k, n); kind 0 unsat, 1 trivial, 2 atom, 6 thresh
pub type AP = [(u8, u8, u8, u8)];

pub struct Filter {
    pub kind: u8,
    pub value: u32,
    pub result: &'static AP,
    pub expected: &'static AP,
}
pub struct Entail {
    pub answer: u8,
    pub witness: u16,
    pub p: &'static AP,
    pub q: &'static AP,
}
pub struct PolCase {
    pub name: &'static str,
    pub natoms: u8,
    pub kinds: [u8; 12],
    pub keymask: u16,
    pub p: &'static AP,
    pub norm: &'static AP,
    pub sorted: &'static AP,
    pub filters: &'static [Filter],
    pub entails: &'static [Entail],
    pub distinct_keys: bool,
    pub min_keys: i32,
    pub min_witness: u16,
    pub has_concrete: bool,
    pub lift_refused: bool,
    pub lifted: &'static AP,
    pub timelock_err: bool,
    pub timelock_witness: u16,
    /// conflict witness when unsatisfiable children are treated as empty paths
    pub timelock_dead_witness: u16,
}

pub fn eval_ap(p: &AP, mask: u16) -> bool {
    let mut st = [false; 12];
    let mut sp = 0usize;
    let mut i = 0;
    while i < p.len() {
        let nd = p[i];
        let v = match nd.0 {
            0 => false,
            1 => true,
            2 => (mask >> nd.1) & 1 == 1,
            _ => {
                let mut c = 0u8;
                let mut j = 0;
                while j < nd.3 {
                    sp -= 1;
                    if st[sp] {
                        c += 1;
                    }
                    j += 1;
                }
                c >= nd.2
            }
        };
        st[sp] = v;
        sp += 1;
        i += 1;
    }
    st[0]
}

fn popcount(x: u16) -> i32 {
    let mut c = 0;
    let mut i = 0;
    while i < 12 {
        if (x >> i) & 1 == 1 {
            c += 1;
        }
        i += 1;
    }
    c
}

#[cfg(not(kani))]
fn note(c: &PolCase) { eprintln!("  policy {}", c.name); }
#[cfg(kani)]
fn note(_: &PolCase) {}

/// All statements of C18 about one policy, over every assignment to its atoms.
pub fn tv(c: &PolCase) {
    note(c);
    let mask = sym::u16_();
    sym::assume(mask < (1u16 << c.natoms));
    let v = eval_ap(c.p, mask);
    cover!(true, "case evaluated");
    chk!(eval_ap(c.norm, mask) == v, "normalized() changes the truth table");
    chk!(eval_ap(c.sorted, mask) == v, "sorted() changes the truth table");
    let mut i = 0;
    while i < c.filters.len() {
        let f = &c.filters[i];
        chk!(eval_ap(f.result, mask) == eval_ap(f.expected, mask), "at_age / at_lock_time is not the restriction to the locks met at that age / time");
        i += 1;
    }
    let mut i = 0;
    while i < c.entails.len() {
        let e = &c.entails[i];
        if e.answer == 1 {
            chk!(!eval_ap(e.p, mask) || eval_ap(e.q, mask), "entails() says yes but some assignment satisfies p and not q");
        } else if e.answer == 0 {
            #[cfg(not(kani))]
            if !(e.witness != 0xffff && eval_ap(e.p, e.witness) && !eval_ap(e.q, e.witness)) {
                eprintln!("    entails(p={:?}, q={:?}) answered no, witness {}", e.p, e.q, e.witness);
            }
            chk!(e.witness != 0xffff && eval_ap(e.p, e.witness) && !eval_ap(e.q, e.witness), "entails() says no but every assignment satisfying p satisfies q");
        }
        i += 1;
    }
    if c.distinct_keys {
        if c.min_keys < 0 {
            chk!(!v, "minimum_n_keys() says unsatisfiable but an assignment satisfies the policy");
        } else {
            chk!(!v || popcount(mask & c.keymask) >= c.min_keys, "a satisfying assignment uses fewer signatures than minimum_n_keys()");
            chk!(c.min_witness != 0xffff && eval_ap(c.p, c.min_witness) && popcount(c.min_witness & c.keymask) == c.min_keys, "no satisfying assignment uses exactly minimum_n_keys() signatures");
        }
    }
    if c.has_concrete {
        if !c.lift_refused {
            chk!(eval_ap(c.lifted, mask) == v, "lifting the concrete policy changes the truth table");
        }
        // mixed time locks: a minimal satisfying assignment containing a height- and a time-based lock of one kind
        let mut minimal = v;
        let (mut ah, mut at, mut oh, mut ot) = (false, false, false, false);
        let mut b = 0;
        while b < 12 {
            if b < c.natoms as usize && (mask >> b) & 1 == 1 {
                if eval_ap(c.p, mask & !(1 << b)) {
                    minimal = false;
                }
                match c.kinds[b] {
                    2 => ah = true,
                    3 => at = true,
                    4 => oh = true,
                    5 => ot = true,
                    _ => {}
                }
            }
            b += 1;
        }
        let conflict = (ah && at) || (oh && ot);
        if c.timelock_err {
            #[cfg(not(kani))]
            if c.timelock_witness == 0xffff {
                eprintln!("    check_timelocks fires without a conflicting minimal path: {}", c.name);
            }
            if c.timelock_witness == 0xffff {
                if c.timelock_dead_witness != 0xffff {
                    chk!(false, "check_timelocks() fires although the only height/time conflict lies on an unsatisfiable branch");
                } else {
                    chk!(false, "check_timelocks() fires but no spending path (k children of every threshold) needs a height- and a time-based lock of the same kind");
                }
            }
            chk!(c.timelock_witness == 0xffff || eval_ap(c.p, c.timelock_witness), "time-lock conflict witness must satisfy the policy");
            chk!(c.lift_refused, "lift() must refuse a concrete policy whose time-lock check fires");
        } else {
            chk!(!(minimal && conflict), "check_timelocks() is silent but a satisfying path needs a height- and a time-based lock of the same kind");
        }
    }
}
