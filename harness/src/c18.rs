//! C18 (rule level) — the mixed-time-lock rule on the REAL `TimelockInfo::combine_threshold`.
use miniscript::miniscript::types::extra_props::TimelockInfo;
use miniscript::verif_hooks as hk;

use crate::{chk, cover, sym};

fn any_info() -> TimelockInfo {
    TimelockInfo { csv_with_height: sym::bool_(), csv_with_time: sym::bool_(), cltv_with_height: sym::bool_(), cltv_with_time: sym::bool_(), contains_combination: sym::bool_() }
}

/// reference: some pair of distinct children has a height/time conflict of the same kind
fn reference<const N: usize>(k: usize, t: &[TimelockInfo; N]) -> TimelockInfo {
    let mut r = TimelockInfo::new();
    let mut i = 0;
    while i < N {
        r.csv_with_height |= t[i].csv_with_height;
        r.csv_with_time |= t[i].csv_with_time;
        r.cltv_with_height |= t[i].cltv_with_height;
        r.cltv_with_time |= t[i].cltv_with_time;
        r.contains_combination |= t[i].contains_combination;
        let mut j = 0;
        while j < N {
            if i != j && k > 1 {
                if (t[i].csv_with_height && t[j].csv_with_time) || (t[i].cltv_with_height && t[j].cltv_with_time) {
                    r.contains_combination = true;
                }
            }
            j += 1;
        }
        i += 1;
    }
    r
}

fn combine_n<const N: usize>() {
    let mut t = [TimelockInfo::new(); N];
    let mut i = 0;
    while i < N {
        t[i] = any_info();
        i += 1;
    }
    let k = sym::usize_();
    sym::assume(k >= 1 && k <= N);
    let lib = hk::timelock_combine_threshold(k, &t);
    let r = reference(k, &t);
    chk!(lib == r, "combine_threshold must flag exactly a same-kind height/time conflict between two different children (k > 1)");
    cover!(lib.contains_combination, "conflict");
    cover!(!lib.contains_combination && (lib.csv_with_height && lib.csv_with_time), "both units without conflict (k = 1)");
}

#[cfg_attr(kani, kani::proof)]
#[cfg_attr(kani, kani::unwind(5))]
pub fn c18_combine_2() { combine_n::<2>() }
#[cfg_attr(kani, kani::proof)]
#[cfg_attr(kani, kani::unwind(6))]
pub fn c18_combine_3() { combine_n::<3>() }
#[cfg_attr(kani, kani::proof)]
#[cfg_attr(kani, kani::unwind(7))]
pub fn c18_combine_4() { combine_n::<4>() }

#[cfg_attr(kani, kani::proof)]
#[cfg_attr(kani, kani::unwind(5))]
pub fn c18_combine_and_or() {
    let (a, b) = (any_info(), any_info());
    chk!(hk::timelock_combine_and(a, b) == reference(2, &[a, b]), "combine_and = threshold 2 of 2");
    chk!(hk::timelock_combine_or(a, b) == reference(1, &[a, b]), "combine_or = threshold 1 of 2");
    cover!(hk::timelock_combine_and(a, b).contains_combination && !a.contains_combination && !b.contains_combination, "new conflict");
}
