fn main() {
    println!("cargo:rerun-if-changed=src/generated/mod.rs");
    println!("cargo:rustc-check-cfg=cfg(has_generated)");
    println!("cargo:rerun-if-env-changed=MSVERIF_NO_GENERATED");
    if std::env::var("MSVERIF_NO_GENERATED").is_err() && std::path::Path::new("src/generated/mod.rs").exists() {
        println!("cargo:rustc-cfg=has_generated");
    }
}
