#!/bin/bash
# confirm_seed.sh <PROP> <A|B> [features]: confirm a seeded change in its scratch worktree:
#  suite passes with the change, demo fails with it, demo passes without it.
P=$1; V=$2; FEAT=${3:-}
WT=/tmp/wt-$P; SD=/tmp/seed-$P/$V; OUT=/tmp/seed-$P/$V/confirm.log
cd $WT || exit 9
git checkout -q -- . ; git clean -qfd -e target
{
echo "== apply"; git apply $SD/patch.diff || { echo APPLY-FAILED; exit 9; }
echo "== suite with change"; cargo test --workspace --offline 2>&1 | grep -E "^test result|FAILED|failed|error" | head -20
cp $SD/demo.rs tests/seed_demo.rs
echo "== demo with change (expect FAIL)"; cargo test --offline $FEAT --test seed_demo 2>&1 | grep -E "^test |^test result|error(\[|:)" | head -20
git checkout -q -- . 
echo "== demo without change (expect PASS)"; cargo test --offline $FEAT --test seed_demo 2>&1 | grep -E "^test result|error(\[|:)" | head -20
rm -f tests/seed_demo.rs; git clean -qfd -e target
} > $OUT 2>&1
echo "confirm $P/$V done"; cat $OUT
