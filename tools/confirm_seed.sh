#!/bin/bash
# confirm_seed.sh <PROP> <A|B> [features]: confirm a seeded change in its scratch worktree:
#  suite passes with the change, demo fails with it, demo passes without it.
P=$1; V=$2; FEAT=${3:-}
WT=/tmp/wt-$P; SD=/tmp/seed-$P/$V; OUT=/tmp/seed-$P/$V/confirm.log
cd $WT || exit 9
git checkout -q -- . ; git clean -qfd -e target
sumres() { grep -E "^test result" | awk '{p+=$4; f+=$6} END {print "passed=" p " failed=" f}'; }
{
echo "== apply"; git apply $SD/patch.diff || { echo APPLY-FAILED; exit 9; }
echo -n "== suite with change: "; cargo test --workspace --offline 2>&1 | sumres
cp $SD/demo.rs tests/seed_demo.rs
echo -n "== demo with change (expect failed>0): "; cargo test --offline $FEAT --test seed_demo 2>&1 | sumres
git checkout -q -- . 
echo -n "== demo without change (expect failed=0): "; cargo test --offline $FEAT --test seed_demo 2>&1 | sumres
rm -f tests/seed_demo.rs; git clean -qfd -e target
} > $OUT 2>&1
echo "confirm $P/$V:"; cat $OUT
