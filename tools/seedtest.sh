#!/bin/bash
# seedtest.sh <seed-id> <PROP> [<PROP> ...]: apply a seeded change to /repo, run the quick checks, undo.
# Writes /verif/seeded/<id>/detect_<PROP>.txt (exit code + VIOLATION / KNOWN / INCONCLUSIVE lines).
ID=$1; shift
cd /repo || exit 9
if [ -n "$(git status --porcelain --untracked-files=no)" ]; then echo "repo not clean"; exit 9; fi
git apply --3way /verif/seeded/$ID/patch.diff 2>/tmp/apply_$ID.err || git apply /verif/seeded/$ID/patch.diff 2>>/tmp/apply_$ID.err || { echo "$ID: patch does not apply"; cat /tmp/apply_$ID.err; git checkout -- . ; git reset -q; exit 8; }
git reset -q
for P in "$@"; do
  cd /verif
  s=$(date +%s)
  ./check $P --tier quick > /verif/logs/seed_${ID}_$P.out 2>&1; rc=$?
  e=$(date +%s)
  { echo "seed=$ID check=$P rc=$rc wall=$((e-s))s"; grep -a "^VIOLATION\|^   harness\|^KNOWN-FINDING\|^INCONCLUSIVE\|BUILD-FAILED" /verif/logs/seed_${ID}_$P.out | cut -c1-300 | head -12; } > /verif/seeded/$ID/detect_$P.txt
  cat /verif/seeded/$ID/detect_$P.txt | head -4
done
cd /repo; git checkout -- . ; git status --porcelain --untracked-files=no | head -3
