#!/usr/bin/env python3
"""Fill seeded/<id>/meta.json "detected_by" from the detect_<PROP>.txt files written by
tools/seedtest_par.sh, and print the matrix (markdown) used in DESIGN.md §9."""
import glob, json, os, re
root = os.path.join(os.path.dirname(os.path.abspath(__file__)), "..", "seeded")
rows = []
for d in sorted(glob.glob(os.path.join(root, "*"))):
    sid = os.path.basename(d)
    mp = os.path.join(d, "meta.json")
    if not os.path.exists(mp):
        continue
    meta = json.load(open(mp))
    det, miss, inc = [], [], []
    for f in sorted(glob.glob(os.path.join(d, "detect_*.txt"))):
        prop = os.path.basename(f)[7:-4]
        txt = open(f).read()
        m = re.search(r"rc=(\d+)", txt)
        rc = int(m.group(1)) if m else -1
        hs = re.findall(r"harness (\S+): (.*)", txt)
        if rc == 1:
            det.append({"check": prop, "harness": hs[0][0] if hs else "", "message": hs[0][1][:160] if hs else ""})
        elif rc == 0:
            miss.append(prop)
        else:
            inc.append(prop)
    meta["detected_by"] = det if det else "not detected"
    meta["not_detected_by"] = miss
    if inc:
        meta["inconclusive"] = inc
    json.dump(meta, open(mp, "w"), indent=1)
    rows.append((sid, meta.get("breaks_property"), det, miss, inc, meta.get("needs_to_manifest", "")))
print("| seed | detected by (quick tier) | first failing harness | not detected by |")
print("|---|---|---|---|")
for sid, prop, det, miss, inc, needs in rows:
    d = ", ".join(x["check"] for x in det) or "**none**"
    h = "; ".join("`%s`" % x["harness"] for x in det[:2])
    print("| %s | %s | %s | %s |" % (sid, d, h, ", ".join(miss + [i + " (inconclusive)" for i in inc])))
