#!/bin/bash
# seedtest_par.sh <seed-id> <PROP> [<PROP> ...]
# Runs the quick checks against a seeded change WITHOUT touching /repo: a scratch worktree of /repo's HEAD
# gets the patch, a scratch copy of /verif (own target dir) is pointed at it.  Several of these can run at once.
# Result: /verif/seeded/<id>/detect_<PROP>.txt.  Scratch dirs are removed afterwards.
ID=$1; shift
JOBS=${SEED_JOBS:-7}
WT=/tmp/swt-$ID; VF=/tmp/svf-$ID
rm -rf $VF; git -C /repo worktree remove --force $WT 2>/dev/null; rm -rf $WT
git -C /repo worktree add -q --detach $WT HEAD || exit 9
( cd $WT && { git apply --3way /verif/seeded/$ID/patch.diff 2>/tmp/apply_$ID.err || git apply /verif/seeded/$ID/patch.diff 2>>/tmp/apply_$ID.err; } ) || { echo "$ID: patch does not apply"; cat /tmp/apply_$ID.err; git -C /repo worktree remove --force $WT; exit 8; }
mkdir -p $VF
rsync -a --exclude .target --exclude logs --exclude replays --exclude .git --exclude evidence --exclude generated /verif/ $VF/
sed -i "s#path = \"/repo\"#path = \"$WT\"#" $VF/harness/Cargo.toml
for P in "$@"; do
  s=$(date +%s)
  ( cd $VF && VERIF_REPO=$WT ./check $P --tier ${SEED_TIER:-quick} --jobs $JOBS > $VF/seed_$P.out 2>&1 ); rc=$?
  e=$(date +%s)
  { echo "seed=$ID check=$P rc=$rc wall=$((e-s))s"; grep -a "^VIOLATION\|^   harness\|^KNOWN-FINDING\|^INCONCLUSIVE\|BUILD-FAILED" $VF/seed_$P.out | cut -c1-300 | head -12; } > /verif/seeded/$ID/detect_$P.txt
  mkdir -p /verif/logs/seed; cp $VF/seed_$P.out /verif/logs/seed/${ID}_$P.out
  head -4 /verif/seeded/$ID/detect_$P.txt
done
rm -rf $VF
git -C /repo worktree remove --force $WT
