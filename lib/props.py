"""Per-property metadata written into the evidence files (what is trusted, bounds, what is outside)."""

COMMON_TB = [
    "Kani 0.68.0 MIR->goto translation, CBMC 6.11.0 symbolic execution, CaDiCaL",
    "rustc (Kani's pinned toolchain) compiling /repo's current working tree",
]

PROPS = {
    "C05": {
        "level": "proof",
        "trusted_base": COMMON_TB + ["/verif/harness/src/spec.rs: transcription of the Miniscript specification's correctness and malleability tables"],
        "functions": [
            "miniscript::types::Type::{cast_alt,cast_swap,cast_check,cast_dupif,cast_verify,cast_nonzero,cast_zeronotequal,cast_true,cast_likely,cast_unlikely}",
            "miniscript::types::Type::{and_b,and_v,or_b,or_c,or_d,or_i,and_or,threshold}",
            "miniscript::types::{Correctness,Malleability}::* (called by the above)",
            "Type::{TRUE,FALSE,pk_k,pk_h,multi,sortedmulti,multi_a,sortedmulti_a,hash,time}",
        ],
        "bounds": {
            "quick": "every rule on ALL 960^n child-type tuples (no bound); thresh: n <= 4 children, all k in 1..=n",
            "thorough": "every rule on ALL 960^n child-type tuples (no bound); thresh: n <= 6 children, all k in 1..=n",
        },
        "outside": ["thresholds with more children than the bound", "Type::type_check dispatch for fragments needing heap trees is covered by c05_dispatch_* only for the listed variants"],
        "assumptions": [
            "equality with the specification is demanded on child types satisfying the type system's invariant (spec::inv, proved inductive by c05_inv_*); lib <= spec is demanded on all child types (c: only on invariant-respecting children)",
            "listed deliberate deviations: thresh 'e' additionally requires all children 'e'; d: never 'u' (Tapscript row only checked for <=)",
        ],
    },
}
