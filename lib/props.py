"""Per-property metadata written into the evidence files (what is trusted, bounds, what is outside)."""

COMMON_TB = [
    "Kani 0.68.0 MIR->goto translation, CBMC 6.11.0 symbolic execution, CaDiCaL",
    "rustc (Kani's pinned toolchain) compiling /repo's current working tree",
]

PROPS = {
    "C05": {
        "level": "proof",
        "trusted_base": COMMON_TB + ["/verif/harness/src/spec.rs: transcription of the Miniscript specification's correctness and malleability tables"],
        "functions": [
            "miniscript::types::Type::{cast_alt,cast_swap,cast_check,cast_dupif,cast_verify,cast_nonzero,cast_zeronotequal,cast_true,cast_likely,cast_unlikely}",
            "miniscript::types::Type::{and_b,and_v,or_b,or_c,or_d,or_i,and_or,threshold}",
            "miniscript::types::{Correctness,Malleability}::* (called by the above)",
            "Type::{TRUE,FALSE,pk_k,pk_h,multi,sortedmulti,multi_a,sortedmulti_a,hash,time}",
            "Type::type_check dispatch of every leaf Terminal variant to its rule (c05_dispatch_leaves)",
        ],
        "bounds": {
            "quick": "every rule on ALL 960^n child-type tuples (no bound); thresh: n <= 4 children, all k in 1..=n",
            "thorough": "every rule on ALL 960^n child-type tuples (no bound); thresh: n <= 6 children, all k in 1..=n",
        },
        "outside": ["thresholds with more children than the bound", "Type::type_check dispatch for fragments needing heap trees is covered by c05_dispatch_* only for the listed variants"],
        "assumptions": [
            "equality with the specification is demanded on child types satisfying the type system's invariant (spec::inv, proved inductive by c05_inv_*); lib <= spec is demanded on all child types (c: only on invariant-respecting children)",
            "listed deliberate deviations: thresh 'e' additionally requires all children 'e'; d: never 'u' (Tapscript row only checked for <=)",
        ],
    },
}

_VM_TB = COMMON_TB + [
    "/verif/harness/src/vm.rs: reference Script machine (abstract elements; signatures are tokens; hashes an injective map)",
    "/verif/harness/src/gen/mod.rs: native generator (enumeration of shapes, script decoding with rust-bitcoin's instruction iterator, placeholder->element mapping)",
]
_W_ASSUME = [
    "library code (encode, type_check, ExtData, lift, build_template(_mall), sat_dissat via hook H2, Descriptor::into_plan(_mall)) ran NATIVELY from the current tree; the solver decided the statement about its output (translation validation)",
    "signatures are abstract tokens (no sighash / secp verification); hash functions are an injective map preimage->digest",
    "an absolute lock is met by nLockTime of the same unit >= t AND a non-final nSequence; a relative lock by nSequence with disable bit clear, same unit, masked value >=; tx version >= 2",
    "standardness flags on: NULLFAIL, NULLDUMMY, CLEANSTACK, STRICTENC, MINIMALIF in Segwitv0/Tap",
]
_W_BOUNDS = {
    "quick": "all type/kind classes of well-typed fragments up to 4 nodes (Segwitv0, Tap), 3 (Legacy), 2 (Bare); <=4 keys, <=2 hashes, <=2 lock atoms per kind in 3 value palettes (distinct / equal / mixed units); all 2^(keys+hashes) x consistent lock vectors natively; nLockTime/nSequence full 32 bit; candidate witnesses <= max_args+1 <= 10 elements over a 9-tag alphabet",
    "thorough": "as quick plus seed-selected classes up to 6 nodes (Segwitv0/Tap), 5 (Legacy), 4 (Bare)",
}
_W_OUT = ["shapes above the node bound", "real signature verification / sighash", "raw pkh fragments", "PSBT route", "key types other than single compressed keys (x-only derived in Tap)"]
for _p, _lvl, _fn in [
    ("C01", "translation_validation", ["Miniscript::build_template", "build_template_mall", "Satisfaction::sat_dissat (H2)", "Terminal::encode", "Descriptor::into_plan(_mall)"]),
    ("C02", "translation_validation", ["Miniscript::build_template(_mall)", "Terminal::encode", "Miniscript::validate(SANE)"]),
    ("C03", "translation_validation", ["Miniscript::build_template", "Terminal::encode", "Miniscript::validate(SANE)"]),
    ("C06", "translation_validation", ["Type::type_check (via from_ast)", "Terminal::encode", "Satisfaction::sat_dissat (H2, for the d clause)"]),
    ("C07", "translation_validation", ["Liftable::lift for Miniscript", "Semantic::normalized", "Terminal::encode", "Miniscript::build_template_mall"]),
    ("C09", "translation_validation", ["ExtData::type_check", "Miniscript::script_size", "max_satisfaction_size", "max_satisfaction_witness_elements", "within_resource_limits", "Miniscript::build_template(_mall)"]),
    ("C17", "translation_validation", ["Descriptor::into_plan", "into_plan_mall", "Assets as AssetProvider", "Miniscript::build_template(_mall)", "Descriptor::get_satisfaction(_mall) of wsh / sh / bare / tr and of sh(wsh(..)), sh(wsh(..)).into_plan(_mall) (natively, compared with the miniscript-level templates of the same asset valuation)",
                                        "symbolically: AbsLockTime::max, RelLockTime::max, cmp_by_consensus, Satisfier::check_after / check_older of LockTime / Sequence / RelLockTime / PsbtInputSatisfier (all u32), ItemSize::size of placeholders (symbolic script length)"]),
]:
    PROPS[_p] = {"level": _lvl, "trusted_base": _VM_TB, "functions": _fn, "bounds": _W_BOUNDS, "outside": _W_OUT, "assumptions": _W_ASSUME}

PROPS["C18"] = {
    "level": "translation_validation",
    "trusted_base": COMMON_TB + ["/verif/harness/src/gen/c18.rs: policy enumeration, atom-array conversion, native brute-force search for existential witnesses", "/verif/harness/src/c18.rs: truth-table evaluator"],
    "functions": ["Semantic::normalized", "Semantic::sorted", "Semantic::at_age", "Semantic::at_lock_time", "Semantic::entails", "Semantic::minimum_n_keys", "Concrete::lift", "Concrete::check_timelocks", "TimelockInfo::combine_threshold / combine_and / combine_or (symbolically, whole domain)"],
    "bounds": {"quick": "policies: all leaves, all 1-level thresholds over 12 leaves (n=2), 500 hash-selected n=3 thresholds, 500 two-level policies, hand-picked flattening / constant / repeated-atom shapes; <= 9 nodes, <= 12 atoms; every assignment to the atoms (symbolic); ages / lock times at each lock value, +-1 and in the other unit",
               "thorough": "as quick with 3000 + 3000 seed-selected policies"},
    "outside": ["policies above the bound", "entails() returning None (size cap)", "minimum_n_keys on policies with repeated keys (the library counts occurrences)", "hash kinds other than sha256"],
    "assumptions": ["the transformations ran NATIVELY from the current tree; the solver decided the truth-table statements about their outputs (translation validation)",
                    "atoms are independent booleans for normalized/sorted/entails/minimum_n_keys/lift; at_age/at_lock_time are compared with the input policy in which the locks not implied by the given age/time are replaced by 'unsatisfiable'",
                    "existential claims (entails = no, minimum reached, time-lock conflict exists) are checked on a witness found natively by exhaustive search over the atoms"],
}

PROPS["C12"] = {
    "level": "translation_validation",
    "trusted_base": _VM_TB + ["/verif/harness/src/gen/c12.rs: which library entry points were offered each term"],
    "functions": ["ValidationParams::{intersect, entails, eq} and the stock parameter sets (symbolically, whole domain)", "AbsLockTime/RelLockTime::from_consensus (all u32)", "Threshold::new (all k, n <= 4)", "ExtData::{and_b,and_v,or_*,and_or,cast_*}.timelock_info (symbolic ExtData)",
                  "natively: Wsh::new, Sh::new, Bare::new, Tr::new, Descriptor::new_*, Descriptor::from_str, Miniscript::from_str(_insane), decode(_consensus), validate"],
    "bounds": {"quick": "rule level: whole domains. acceptance: class representatives of all base types <= 3 nodes in four contexts (490 terms), 14-16 entry points each; sigless switch decided on all signature-free witnesses <= max_args+1 elements and all lock values",
               "thorough": "as quick with <= 4 nodes and larger caps"},
    "outside": ["malleability switch (C03 decides non-malleability behaviourally)", "has_repeated_keys beyond the all-keys-equal instantiation", "strings other than the library's own printed forms", "nesting depth limit"],
    "assumptions": ["parsers/constructors ran NATIVELY; the solver decided (by constant propagation for the table-only clauses, by SAT for the sigless clause) statements about what was accepted"] + _W_ASSUME[1:],
}

PROPS["C04"] = {
    "level": "proof",
    "trusted_base": COMMON_TB + ["/verif/harness/src/c04.rs: canonical token serialiser (folds VERIFY into EQUAL/NUMEQUAL/CHECKSIG/CHECKMULTISIG, minimal numbers)", "rust-bitcoin Builder::push_int as reference number encoder"],
    "functions": ["miniscript::lex::lex (symbolically: all 1-opcode scripts, all 1-byte pushes, EQUAL/NUMEQUAL/CHECKSIG/CHECKMULTISIG followed by every opcode)", "script_num_size (all u32)", "natively per shape: Terminal::encode, Miniscript::script_size, Miniscript::decode_with_validation_params"],
    "bounds": {"quick": "lexer: scripts of 1 opcode; 1-byte pushes; 2-opcode scripts whose first opcode is EQUAL, NUMEQUAL, CHECKSIG or CHECKMULTISIG; numbers: every u32; script_size == |encode| and native encode->decode round trip on every generated B-typed shape",
               "thorough": "additionally 2-byte pushes and 2-opcode scripts starting with EQUALVERIFY, VERIFY, OP_2"},
    "outside": ["scripts with more than one symbolic opcode position", "the decoder's grammar on scripts that are not encodings of generated shapes (decode is only run natively on encode() outputs; that part has no solver role and is reported as native_roundtrip_checked)", "real key parsing"],
    "assumptions": ["native round-trip findings (decode(encode(ms)) bytes / type / size) are comparisons made by the generator on real library output and are reported as violations without a solver"],
}
PROPS["C09"]["functions"] = PROPS["C09"]["functions"] + ["varint_len, push_opcode_size (symbolically, all inputs; hook H3)",
    "symbolically on arbitrary child figures (16 bit each): ExtData::{cast_alt, cast_swap, cast_check, cast_zeronotequal, cast_verify, cast_true, cast_dupif, cast_nonzero, cast_likely, cast_unlikely, and_v, and_b, or_b, or_c, or_d, or_i, and_or, threshold (2 children, all k)} against the satisfaction table of the specification (element count, witness bytes, scriptSig bytes, executed-op surcharge)"]
PROPS["C09"]["trusted_base"] = PROPS["C09"]["trusted_base"] + ["/verif/harness/src/c09.rs: the Miniscript specification's satisfaction table as compositions of child figures (accounting lemmas)"]
PROPS["C09"]["outside"] = PROPS["C09"]["outside"] + ["max_exec_stack_count formulas", "thresh accounting with three or more children at rule level (measured: out of memory)", "descriptor-level weight formulas (max_weight_to_satisfy)"]
PROPS["C12"]["functions"] = PROPS["C12"]["functions"] + ["symbolically on arbitrary static figures (32 bit each): ScriptContext::{check_global_consensus_validity, check_local_consensus_validity, check_global_policy_validity, check_local_policy_validity} of Legacy, Segwitv0, Tap, BareCtx against Bitcoin Core's limits (520 / 10000 / 3600 bytes, 201 opcodes, 1650-byte scriptSig, 100 witness items, 1000 stack elements)"]

PROPS["C08"] = {
    "level": "translation_validation",
    "trusted_base": _VM_TB + ["/verif/harness/src/gen/c08.rs: policy enumeration and the array form of the INPUT policy (independent of the library's lift)"],
    "functions": ["natively: Concrete::compile::<Segwitv0|Tap|Legacy|BareCtx>, Concrete::compile_tr, then encode / build_template(_mall) / validate(Ctx::SANE) / within_resource_limits / to_string + from_str on the output"],
    "bounds": {"quick": "481 concrete policies (and / weighted or / thresh over <=4 keys, <=2 hashes, <=2 locks per kind, no repeated atoms; 1-level all pairs, hash-selected triples and 2-level policies), every successful compilation in Segwitv0 and Tap, a third in Legacy, a seventh in Bare, compile_tr with <= 4 leaves; symbolic asset world (32-bit locks) and symbolic witnesses <= max_args+1",
               "thorough": "1200 + 1500 seed-selected policies"},
    "outside": ["policies above the bound or with repeated keys", "optimality of the output", "policies the compiler refuses (counted as compilations_refused)", "compile_tr_private_experimental, compile_to_descriptor wrappers other than tr"],
    "assumptions": ["the compiler ran NATIVELY; the solver decided the statements about its output against the INPUT policy (translation validation)"] + _W_ASSUME[1:],
}

PROPS["C11"] = {
    "level": "proof",
    "trusted_base": COMMON_TB,
    "functions": ["plan::is_key_direct_child_of (hook H4) on single keys with symbolic key-origin and asset paths", "expression::parse_num on all strings <= 3 chars over 12 characters",
                  "(under C04) miniscript::lex::lex one symbolic byte in concrete contexts; (under C12) AbsLockTime/RelLockTime::from_consensus all u32, Threshold::new; (under C15) TapTreeBuilder / BitStack128 steps from arbitrary valid states - all with Kani's panic/overflow/bounds/unwinding checks on"],
    "bounds": {"quick": "derivation paths of length 0..=2 each (9 length pairs, child numbers symbolic 8-bit); number strings <= 3 characters", "thorough": "same"},
    "outside": ["expression::Tree::from_str (3 symbolic characters exceed 17 GB in CBMC - measured), Descriptor/Miniscript string parsers, decode(), the interpreter, PSBT handling, xpub-based keys in the planner (the DescriptorXKey variant of the same harness runs out of memory; the single-key variant reaches the same function)",
                "allocation bounds / stack depth"],
    "assumptions": ["Kani's default checks: no panic, no arithmetic overflow, no out-of-bounds access, loops terminate within the unwinding bound"],
}
PROPS["C15"] = {
    "level": "proof",
    "trusted_base": COMMON_TB + ["/verif/harness/src/c15.rs: reference tree walk (complete-left-subtree marks per height)"],
    "functions": ["TapTreeBuilder::push_leaf, push_inner_node (hook H5) from an ARBITRARY state satisfying the representation invariant", "BitStack128::push/pop from an arbitrary state"],
    "bounds": {"quick": "push_inner_node and the bit stack: whole state space (u128 x bool x u8); push_leaf: every state and cursor height 0..=128 with at most 24 levels completed by one leaf", "thorough": "push_leaf: whole state space (inductive step, heights 0..=128, any number of levels completed)"},
    "outside": ["Merkle root / control block computation (TrSpendInfo::nodes_from_tap_tree: heap vectors of nodes; hashing), the tweak (secp), parsing/printing of trees, key translation", "trees with more than 2^8 nodes are only covered through the builder's inductive step, not through spend-info"],
    "assumptions": ["the representation invariant of the builder (marks only at heights 1..=current_height, complete_128 only at height 128) is proved preserved by both steps and holds initially"],
}
PROPS["C10"] = {
    "level": "proof",
    "trusted_base": COMMON_TB + ["/verif/harness/src/c10.rs: BIP-380 descsum algorithm transcribed from the BIP text (INPUT_CHARSET, CHECKSUM_CHARSET, GENERATOR, polymod)"],
    "functions": ["descriptor::checksum::Engine::{input, checksum_chars}", "descriptor::checksum::verify_checksum"],
    "bounds": {"quick": "every printable-ASCII string of <= 3 characters (all 95 characters, all three character classes, a full class group); verify_checksum on every <= 2-character body with every 8-character candidate checksum", "thorough": "additionally <= 5 characters"},
    "outside": ["error-detection distance of the code on strings longer than the bound (1-/2-character substitutions up to ~500 characters: not decided)", "text round trip of descriptors, miniscripts, policies and keys (display iterators + parsers on heap trees: not reachable, DESIGN §5 C10)"],
    "assumptions": [],
}

PROPS["C13"] = {
    "level": "translation_validation",
    "trusted_base": _VM_TB + ["/verif/harness/src/gen/c13.rs: witness mutation set, abstract element -> bytes mapping, signature oracle handed to Interpreter::iter_custom (a signature verifies iff it is the designated valid signature of that key)",
                              "/verif/harness/src/c13.rs: the predicates iabs / irel (proved equal to the real Stack::evaluate_after / evaluate_older for all u32 pairs by c13_after_rule / c13_older_rule)"],
    "functions": ["symbolically, all u32 pairs: interpreter::stack::Stack::evaluate_after, evaluate_older (hook H6), Sequence::enables_absolute_lock_time",
                  "natively per (shape, candidate witness, lock class): Interpreter::from_txdata (wsh / sh / bare / tr script path), Interpreter::iter_custom -> Iter::iter_next on the whole AST, inner::from_txdata script-hash and control-block checks"],
    "bounds": {"quick": "shapes as for C01 with a descriptor wrapper (B-typed, <= 4 nodes): the generator builds ~1100 interpreter tables, the quick tier decides a fixed subsample of ~400 of them (half of the shapes with lock atoms, a ninth of the others, plus the first four shapes of every (context, root fragment)); per shape every library satisfaction (both modes) plus single mutations in priority order (replace by empty, by any key's valid signature, drop, swap, replace by 1 / an invalid signature, duplicate, junk / 32 zero bytes, extra element on top or at the bottom) and hash-selected double mutations, <= 20 candidates; every class of (nLockTime, nSequence) under the interpreter's own lock predicates x final / non-final nSequence; lock values full 32 bit (symbolic)",
               "thorough": "all tables, <= 60 candidates per shape, seed-selected shapes up to 6 nodes"},
    "outside": ["witnesses that are not in the enumerated mutation set (the witness dimension is enumerated natively, not symbolic)", "real signature verification and sighash selection (Interpreter::verify_sig)", "pkh / wpkh / pk and taproot key-path spends, sh-wsh nesting", "inferred_descriptor",
                "the claim that the interpreter consults nLockTime / nSequence only through evaluate_after / evaluate_older / enables_absolute_lock_time (read off Iter::iter_next; it is what makes one representative per lock class sufficient)"],
    "assumptions": ["the interpreter ran NATIVELY from the current tree on one representative (nLockTime, nSequence) of every lock class; the solver decided, for ALL lock values of the class, that the reference machine accepts what the interpreter accepted, that the executed path checked exactly the reported constraints, and that these satisfy the lifted policy (translation validation)",
                    "when a solver model is replayed natively the REAL interpreter is run again at exactly the model's lock values"] + _W_ASSUME[1:],
}
