"""Driver for the native generator: library code from /repo's current tree produces the
artefacts (scripts, types, figures, lifted policies, witness tables, compiled policies ...)
that the V/W harnesses decide statements about."""
import json, os, subprocess, time

VERIF = os.path.dirname(os.path.dirname(os.path.abspath(__file__)))
HARNESS = os.path.join(VERIF, "harness")
GEN_TARGET = os.path.join(VERIF, ".target", "gen")
OUT = os.path.join(HARNESS, "src", "generated")

SHAPE_PROPS = {"C01", "C02", "C03", "C04", "C06", "C07", "C09", "C13", "C17"}
OWN = {"C08": "c08", "C12": "c12", "C18": "c18"}



def build_gen(run):
    env = dict(os.environ, CARGO_NET_OFFLINE="true", RUSTFLAGS="--cfg miniscript_verif", CARGO_TARGET_DIR=GEN_TARGET, MSVERIF_NO_GENERATED="1")
    rc, out, dt = run(["cargo", "build", "--offline", "--bin", "gen", "--release"], env=env, logf=os.path.join(VERIF, "logs", "gen_build.log"))
    if rc != 0:
        errs = [l for l in out.splitlines() if l.startswith("error")][:10]
        return "generator does not build against the current tree: " + " | ".join(errs)
    return None


def run_gen(what, tier, seed, run, prop=None):
    # MSVERIF_PROP: the shapes generator adds the (large) interpreter tables only for C13
    env = dict(os.environ, MSVERIF_PROP=prop or "")
    rc, out, dt = run([os.path.join(GEN_TARGET, "release", "gen"), what, tier, str(seed), OUT], env=env, logf=os.path.join(VERIF, "logs", "gen_%s.log" % what))
    if rc != 0:
        return None, "generator %s failed (rc=%d): %s" % (what, rc, out[-800:])
    return out, None


def generate(prop, tier, seed, run, log):
    whats = []
    if prop is None:
        whats = ["shapes"] + sorted(set(OWN.values()))
    else:
        if prop in SHAPE_PROPS:
            whats.append("shapes")
        if prop in OWN:
            whats.append(OWN[prop])
    # generated sources of other properties may be stale with respect to the harness crate (a
    # changed table layout would break the build of every check): each run starts from a clean slate
    import shutil
    shutil.rmtree(OUT, ignore_errors=True)
    if not whats:
        return {}
    t0 = time.time()
    err = build_gen(run)
    if err:
        return {"error": err}
    info = {}
    for w in whats:
        out, err = run_gen(w, tier, seed, run, prop)
        if err:
            return {"error": err}
        p = os.path.join(OUT, "%s_info.json" % w)
        if os.path.exists(p):
            try:
                d = json.load(open(p))
            except Exception as e:
                return {"error": "bad info json from generator %s: %s" % (w, e)}
            if prop is None or w != "shapes" or prop in SHAPE_PROPS:
                for k, v in d.items():
                    if k == "native_findings":
                        info.setdefault("native_findings", []).extend(v)
                    else:
                        info[k] = v
    info["generator"] = {"cmd": "gen %s %s %d" % (" ".join(whats), tier, seed), "wall_s": round(time.time() - t0, 1),
                         "note": "native run of /repo's current tree (cfg miniscript_verif); produces the constants the harnesses decide statements about"}
    log("generator: %s in %.0fs" % (",".join(whats), time.time() - t0))
    return info
