"""Driver for the native generator (library code from /repo's current tree produces the
artefacts that V/W harnesses decide statements about).  Filled in per property."""

def generate(prop, tier, seed, run, log):
    return {}
